// Package smt holds hash-consed SMT-LIB2 terms (Bool, fixed-width
// bit-vectors, byte sequences), light constant folding and a printer.
package smt

import (
	"fmt"
	"strings"
)

type Kind uint8

const (
	KBool Kind = iota
	KBV
	KSeq // (Seq (_ BitVec 8))
)

type Sort struct {
	K Kind
	W int // bit width for KBV
}

var (
	BoolSort = Sort{K: KBool}
	SeqSort  = Sort{K: KSeq}
)

func BV(w int) Sort { return Sort{K: KBV, W: w} }

func (s Sort) String() string {
	switch s.K {
	case KBool:
		return "Bool"
	case KBV:
		return fmt.Sprintf("(_ BitVec %d)", s.W)
	default:
		return "(Seq (_ BitVec 8))"
	}
}

type Op uint8

const (
	OpTrue Op = iota
	OpFalse
	OpBVConst  // Val
	OpSeqConst // Name holds the bytes
	OpVar      // Name
	OpNot
	OpAnd
	OpOr
	OpEq
	OpIte
	OpBVAdd
	OpBVSub
	OpBVMul
	OpBVUDiv
	OpBVSDiv
	OpBVURem
	OpBVSRem
	OpBVAnd
	OpBVOr
	OpBVXor
	OpBVShl
	OpBVLShr
	OpBVAShr
	OpBVNeg
	OpBVNot
	OpULt
	OpULe
	OpSLt
	OpSLe
	OpExtract // A=hi B=lo
	OpZeroExt // A=extra bits
	OpSignExt // A=extra bits
	OpSeqConcat
	OpSeqUnit
	OpSeqContains // (seq.contains s sub)
	OpSeqPrefixOf // (seq.prefixof pre s)
	OpSeqSuffixOf // (seq.suffixof suf s)
	OpSeqLen64    // ((_ int2bv 64) (seq.len s))
	OpSeqIndex64  // ((_ int2bv 64) (seq.indexof s sub 0)): -1 wraps to all ones
	OpSeqNth      // (seq.nth s i): the byte at a 64-bit index (in range by construction)
	OpApp         // uninterpreted function Name
)

var opNames = map[Op]string{
	OpNot: "not", OpAnd: "and", OpOr: "or", OpEq: "=", OpIte: "ite",
	OpBVAdd: "bvadd", OpBVSub: "bvsub", OpBVMul: "bvmul", OpBVUDiv: "bvudiv", OpBVSDiv: "bvsdiv",
	OpBVURem: "bvurem", OpBVSRem: "bvsrem", OpBVAnd: "bvand", OpBVOr: "bvor", OpBVXor: "bvxor",
	OpBVShl: "bvshl", OpBVLShr: "bvlshr", OpBVAShr: "bvashr", OpBVNeg: "bvneg", OpBVNot: "bvnot",
	OpULt: "bvult", OpULe: "bvule", OpSLt: "bvslt", OpSLe: "bvsle",
	OpSeqConcat: "seq.++", OpSeqUnit: "seq.unit", OpSeqContains: "seq.contains",
	OpSeqPrefixOf: "seq.prefixof", OpSeqSuffixOf: "seq.suffixof",
}

type Term struct {
	Op   Op
	Sort Sort
	Args []*Term
	Val  uint64
	Name string
	A, B int
	// NoOvf marks a bvmul created by the engine under a recorded path
	// assumption that it cannot overflow (see Ctx.MulNoOvf).
	NoOvf bool
	id    int
}

func (t *Term) ID() int { return t.id }

func (t *Term) IsConst() bool {
	return t.Op == OpTrue || t.Op == OpFalse || t.Op == OpBVConst || t.Op == OpSeqConst
}

type FunDecl struct {
	Name string
	Args []Sort
	Res  Sort
}

// Ctx is a term factory. Not safe for concurrent use: one per worker.
type Ctx struct {
	table map[string]*Term
	Vars  []*Term
	vars  map[string]*Term
	Funs  []*FunDecl
	funs  map[string]*FunDecl
	next  int
	T, F  *Term
}

func NewCtx() *Ctx {
	c := &Ctx{table: map[string]*Term{}, vars: map[string]*Term{}, funs: map[string]*FunDecl{}}
	c.T = c.mk(&Term{Op: OpTrue, Sort: BoolSort})
	c.F = c.mk(&Term{Op: OpFalse, Sort: BoolSort})
	return c
}

func (c *Ctx) NumTerms() int { return c.next }

func (c *Ctx) mk(t *Term) *Term {
	var sb strings.Builder
	fmt.Fprintf(&sb, "%d|%d.%d|%d|%s|%d.%d|%v", t.Op, t.Sort.K, t.Sort.W, t.Val, t.Name, t.A, t.B, t.NoOvf)
	for _, a := range t.Args {
		fmt.Fprintf(&sb, "|%d", a.id)
	}
	k := sb.String()
	if e, ok := c.table[k]; ok {
		return e
	}
	c.next++
	t.id = c.next
	c.table[k] = t
	return t
}

func mask(w int) uint64 {
	if w >= 64 {
		return ^uint64(0)
	}
	return (uint64(1) << uint(w)) - 1
}

func sext(v uint64, w int) int64 {
	if w >= 64 {
		return int64(v)
	}
	sh := uint(64 - w)
	return int64(v<<sh) >> sh
}

func (c *Ctx) Bool(b bool) *Term {
	if b {
		return c.T
	}
	return c.F
}

func (c *Ctx) BVConst(v uint64, w int) *Term {
	return c.mk(&Term{Op: OpBVConst, Sort: BV(w), Val: v & mask(w)})
}

func (c *Ctx) SeqConst(s string) *Term {
	return c.mk(&Term{Op: OpSeqConst, Sort: SeqSort, Name: s})
}

func (c *Ctx) Var(name string, s Sort) *Term {
	if v, ok := c.vars[name]; ok {
		if v.Sort != s {
			panic(fmt.Sprintf("smt: variable %s redeclared with sort %v (was %v)", name, s, v.Sort))
		}
		return v
	}
	v := c.mk(&Term{Op: OpVar, Sort: s, Name: name})
	c.vars[name] = v
	c.Vars = append(c.Vars, v)
	return v
}

func (c *Ctx) LookupVar(name string) *Term { return c.vars[name] }

// App applies an uninterpreted function (declared on first use).
func (c *Ctx) App(name string, res Sort, args ...*Term) *Term {
	fd, ok := c.funs[name]
	if !ok {
		fd = &FunDecl{Name: name, Res: res}
		for _, a := range args {
			fd.Args = append(fd.Args, a.Sort)
		}
		c.funs[name] = fd
		c.Funs = append(c.Funs, fd)
	} else {
		if fd.Res != res || len(fd.Args) != len(args) {
			panic("smt: function " + name + " redeclared")
		}
	}
	return c.mk(&Term{Op: OpApp, Sort: res, Name: name, Args: args})
}

func (c *Ctx) Not(a *Term) *Term {
	switch a.Op {
	case OpTrue:
		return c.F
	case OpFalse:
		return c.T
	case OpNot:
		return a.Args[0]
	}
	return c.mk(&Term{Op: OpNot, Sort: BoolSort, Args: []*Term{a}})
}

func (c *Ctx) And(as ...*Term) *Term {
	var out []*Term
	for _, a := range as {
		switch a.Op {
		case OpTrue:
			continue
		case OpFalse:
			return c.F
		case OpAnd:
			out = append(out, a.Args...)
		default:
			out = append(out, a)
		}
	}
	// dedupe, detect x and not x
	seen := map[int]bool{}
	var o2 []*Term
	for _, a := range out {
		if seen[a.id] {
			continue
		}
		seen[a.id] = true
		o2 = append(o2, a)
	}
	for _, a := range o2 {
		if a.Op == OpNot && seen[a.Args[0].id] {
			return c.F
		}
	}
	switch len(o2) {
	case 0:
		return c.T
	case 1:
		return o2[0]
	}
	return c.mk(&Term{Op: OpAnd, Sort: BoolSort, Args: o2})
}

func (c *Ctx) Or(as ...*Term) *Term {
	var out []*Term
	for _, a := range as {
		switch a.Op {
		case OpFalse:
			continue
		case OpTrue:
			return c.T
		case OpOr:
			out = append(out, a.Args...)
		default:
			out = append(out, a)
		}
	}
	seen := map[int]bool{}
	var o2 []*Term
	for _, a := range out {
		if seen[a.id] {
			continue
		}
		seen[a.id] = true
		o2 = append(o2, a)
	}
	for _, a := range o2 {
		if a.Op == OpNot && seen[a.Args[0].id] {
			return c.T
		}
	}
	switch len(o2) {
	case 0:
		return c.F
	case 1:
		return o2[0]
	}
	return c.mk(&Term{Op: OpOr, Sort: BoolSort, Args: o2})
}

func (c *Ctx) Implies(a, b *Term) *Term { return c.Or(c.Not(a), b) }

func (c *Ctx) Iff(a, b *Term) *Term { return c.Eq(a, b) }

func (c *Ctx) Eq(a, b *Term) *Term {
	if a.Sort != b.Sort {
		panic(fmt.Sprintf("smt: Eq sort mismatch %v vs %v", a.Sort, b.Sort))
	}
	if a == b {
		return c.T
	}
	if a.IsConst() && b.IsConst() {
		// distinct hash-consed constants of the same sort are different values
		return c.F
	}
	if a.Sort.K == KBool {
		if a.Op == OpTrue {
			return b
		}
		if b.Op == OpTrue {
			return a
		}
		if a.Op == OpFalse {
			return c.Not(b)
		}
		if b.Op == OpFalse {
			return c.Not(a)
		}
	}
	// equalities on non-overflowing products with a constant
	if a.Sort.K == KBV {
		x, y := a, b
		if y.Op == OpBVMul && y.NoOvf {
			x, y = y, x
		}
		if x.Op == OpBVMul && x.NoOvf && x.Args[1].Op == OpBVConst {
			k := sext(x.Args[1].Val, x.Sort.W)
			if y.Op == OpBVConst && k != 0 {
				cv := sext(y.Val, y.Sort.W)
				if cv%k != 0 {
					return c.F
				}
				return c.Eq(x.Args[0], c.BVConst(uint64(cv/k), x.Sort.W))
			}
			if y.Op == OpBVMul && y.NoOvf && y.Args[1] == x.Args[1] && k != 0 {
				return c.Eq(x.Args[0], y.Args[0])
			}
		}
	}
	if a.id > b.id {
		a, b = b, a
	}
	return c.mk(&Term{Op: OpEq, Sort: BoolSort, Args: []*Term{a, b}})
}

func (c *Ctx) Ite(cond, a, b *Term) *Term {
	if a.Sort != b.Sort {
		panic("smt: Ite sort mismatch")
	}
	switch cond.Op {
	case OpTrue:
		return a
	case OpFalse:
		return b
	}
	if a == b {
		return a
	}
	if a.Sort.K == KBool {
		if a.Op == OpTrue && b.Op == OpFalse {
			return cond
		}
		if a.Op == OpFalse && b.Op == OpTrue {
			return c.Not(cond)
		}
	}
	return c.mk(&Term{Op: OpIte, Sort: a.Sort, Args: []*Term{cond, a, b}})
}

// BVBin builds a binary bit-vector operation with constant folding.
func (c *Ctx) BVBin(op Op, a, b *Term) *Term {
	if a.Sort != b.Sort || a.Sort.K != KBV {
		panic(fmt.Sprintf("smt: BVBin %s sort mismatch %v vs %v", opNames[op], a.Sort, b.Sort))
	}
	w := a.Sort.W
	if a.Op == OpBVConst && b.Op == OpBVConst {
		if v, ok := foldBin(op, a.Val, b.Val, w); ok {
			return c.BVConst(v, w)
		}
	}
	// algebraic identities
	switch op {
	case OpBVAdd:
		if isZero(a) {
			return b
		}
		if isZero(b) {
			return a
		}
	case OpBVSub:
		if isZero(b) {
			return a
		}
		if a == b {
			return c.BVConst(0, w)
		}
	case OpBVMul:
		if isZero(a) || isZero(b) {
			return c.BVConst(0, w)
		}
		if isOne(a) {
			return b
		}
		if isOne(b) {
			return a
		}
	case OpBVAnd:
		if isZero(a) || isZero(b) {
			return c.BVConst(0, w)
		}
		if isAllOnes(a) {
			return b
		}
		if isAllOnes(b) {
			return a
		}
		if a == b {
			return a
		}
	case OpBVOr:
		if isZero(a) {
			return b
		}
		if isZero(b) {
			return a
		}
		if a == b {
			return a
		}
	case OpBVXor:
		if isZero(a) {
			return b
		}
		if isZero(b) {
			return a
		}
		if a == b {
			return c.BVConst(0, w)
		}
	case OpBVShl, OpBVLShr, OpBVAShr:
		if isZero(b) {
			return a
		}
		if isZero(a) {
			return a
		}
	case OpBVSDiv:
		// (x *noovf C) / C == x
		if a.Op == OpBVMul && a.NoOvf && b.Op == OpBVConst && b.Val != 0 {
			if a.Args[1] == b {
				return a.Args[0]
			}
			if a.Args[0] == b {
				return a.Args[1]
			}
		}
		if isOne(b) {
			return a
		}
	case OpBVSRem:
		if a.Op == OpBVMul && a.NoOvf && b.Op == OpBVConst && b.Val != 0 {
			if a.Args[1] == b || a.Args[0] == b {
				return c.BVConst(0, w)
			}
		}
	case OpBVUDiv:
		if isOne(b) {
			return a
		}
	}
	return c.mk(&Term{Op: op, Sort: a.Sort, Args: []*Term{a, b}})
}

// MulNoOvf builds a*k where the caller guarantees (by a path assumption)
// that the signed product does not overflow.
func (c *Ctx) MulNoOvf(a *Term, k uint64) *Term {
	kb := c.BVConst(k, a.Sort.W)
	if a.Op == OpBVConst {
		return c.BVBin(OpBVMul, a, kb)
	}
	return c.mk(&Term{Op: OpBVMul, Sort: a.Sort, Args: []*Term{a, kb}, NoOvf: true})
}

func isZero(t *Term) bool { return t.Op == OpBVConst && t.Val == 0 }
func isOne(t *Term) bool  { return t.Op == OpBVConst && t.Val == 1 }
func isAllOnes(t *Term) bool {
	return t.Op == OpBVConst && t.Val == mask(t.Sort.W)
}

func foldBin(op Op, x, y uint64, w int) (uint64, bool) {
	m := mask(w)
	switch op {
	case OpBVAdd:
		return (x + y) & m, true
	case OpBVSub:
		return (x - y) & m, true
	case OpBVMul:
		return (x * y) & m, true
	case OpBVUDiv:
		if y == 0 {
			return m, true
		}
		return x / y, true
	case OpBVURem:
		if y == 0 {
			return x, true
		}
		return x % y, true
	case OpBVSDiv:
		sx, sy := sext(x, w), sext(y, w)
		if sy == 0 {
			if sx < 0 {
				return 1, true
			}
			return m, true
		}
		if sy == -1 {
			return uint64(-sx) & m, true
		}
		return uint64(sx/sy) & m, true
	case OpBVSRem:
		sx, sy := sext(x, w), sext(y, w)
		if sy == 0 {
			return x, true
		}
		if sy == -1 {
			return 0, true
		}
		return uint64(sx%sy) & m, true
	case OpBVAnd:
		return x & y, true
	case OpBVOr:
		return x | y, true
	case OpBVXor:
		return x ^ y, true
	case OpBVShl:
		if y >= uint64(w) {
			return 0, true
		}
		return (x << y) & m, true
	case OpBVLShr:
		if y >= uint64(w) {
			return 0, true
		}
		return x >> y, true
	case OpBVAShr:
		sx := sext(x, w)
		if y >= uint64(w) {
			y = uint64(w - 1)
		}
		return uint64(sx>>y) & m, true
	}
	return 0, false
}

func (c *Ctx) BVUn(op Op, a *Term) *Term {
	w := a.Sort.W
	if a.Op == OpBVConst {
		switch op {
		case OpBVNeg:
			return c.BVConst(-a.Val, w)
		case OpBVNot:
			return c.BVConst(^a.Val, w)
		}
	}
	if a.Op == op {
		return a.Args[0]
	}
	if op == OpBVNeg && a.Op == OpBVMul && a.NoOvf && a.Args[1].Op == OpBVConst {
		// -(x*k) = (-x)*k, still without overflow
		return c.MulNoOvf(c.BVUn(OpBVNeg, a.Args[0]), a.Args[1].Val)
	}
	return c.mk(&Term{Op: op, Sort: a.Sort, Args: []*Term{a}})
}

// Cmp builds a bit-vector comparison (OpULt, OpULe, OpSLt, OpSLe).
func (c *Ctx) Cmp(op Op, a, b *Term) *Term {
	if a.Sort != b.Sort || a.Sort.K != KBV {
		panic("smt: Cmp sort mismatch")
	}
	w := a.Sort.W
	if a.Op == OpBVConst && b.Op == OpBVConst {
		switch op {
		case OpULt:
			return c.Bool(a.Val < b.Val)
		case OpULe:
			return c.Bool(a.Val <= b.Val)
		case OpSLt:
			return c.Bool(sext(a.Val, w) < sext(b.Val, w))
		case OpSLe:
			return c.Bool(sext(a.Val, w) <= sext(b.Val, w))
		}
	}
	if a == b {
		return c.Bool(op == OpULe || op == OpSLe)
	}
	// sign of a non-overflowing product with a positive constant
	if op == OpSLt || op == OpSLe {
		if a.Op == OpBVMul && a.NoOvf && a.Args[1].Op == OpBVConst && sext(a.Args[1].Val, w) > 0 && isZero(b) {
			return c.Cmp(op, a.Args[0], b)
		}
		if b.Op == OpBVMul && b.NoOvf && b.Args[1].Op == OpBVConst && sext(b.Args[1].Val, w) > 0 && isZero(a) {
			return c.Cmp(op, a, b.Args[0])
		}
	}
	return c.mk(&Term{Op: op, Sort: BoolSort, Args: []*Term{a, b}})
}

func (c *Ctx) Extract(hi, lo int, a *Term) *Term {
	if lo == 0 && hi == a.Sort.W-1 {
		return a
	}
	if a.Op == OpBVConst {
		return c.BVConst(a.Val>>uint(lo), hi-lo+1)
	}
	if (a.Op == OpZeroExt || a.Op == OpSignExt) && hi < a.Args[0].Sort.W {
		return c.Extract(hi, lo, a.Args[0])
	}
	return c.mk(&Term{Op: OpExtract, Sort: BV(hi - lo + 1), Args: []*Term{a}, A: hi, B: lo})
}

func (c *Ctx) ZeroExt(n int, a *Term) *Term {
	if n == 0 {
		return a
	}
	if a.Op == OpBVConst {
		return c.BVConst(a.Val, a.Sort.W+n)
	}
	return c.mk(&Term{Op: OpZeroExt, Sort: BV(a.Sort.W + n), Args: []*Term{a}, A: n})
}

func (c *Ctx) SignExt(n int, a *Term) *Term {
	if n == 0 {
		return a
	}
	if a.Op == OpBVConst {
		return c.BVConst(uint64(sext(a.Val, a.Sort.W)), a.Sort.W+n)
	}
	return c.mk(&Term{Op: OpSignExt, Sort: BV(a.Sort.W + n), Args: []*Term{a}, A: n})
}

// Resize converts a to width w, extending by sign or zero.
func (c *Ctx) Resize(a *Term, w int, signed bool) *Term {
	switch {
	case w == a.Sort.W:
		return a
	case w < a.Sort.W:
		return c.Extract(w-1, 0, a)
	case signed:
		return c.SignExt(w-a.Sort.W, a)
	default:
		return c.ZeroExt(w-a.Sort.W, a)
	}
}

func (c *Ctx) SeqUnit(b *Term) *Term {
	if b.Sort != BV(8) {
		panic("smt: SeqUnit wants a byte")
	}
	if b.Op == OpBVConst {
		return c.SeqConst(string([]byte{byte(b.Val)}))
	}
	return c.mk(&Term{Op: OpSeqUnit, Sort: SeqSort, Args: []*Term{b}})
}

func (c *Ctx) SeqConcat(as ...*Term) *Term {
	var out []*Term
	for _, a := range as {
		if a.Op == OpSeqConcat {
			out = append(out, a.Args...)
		} else {
			out = append(out, a)
		}
	}
	// merge adjacent constants, drop empties
	var o2 []*Term
	for _, a := range out {
		if a.Op == OpSeqConst {
			if a.Name == "" {
				continue
			}
			if n := len(o2); n > 0 && o2[n-1].Op == OpSeqConst {
				o2[n-1] = c.SeqConst(o2[n-1].Name + a.Name)
				continue
			}
		}
		o2 = append(o2, a)
	}
	switch len(o2) {
	case 0:
		return c.SeqConst("")
	case 1:
		return o2[0]
	}
	return c.mk(&Term{Op: OpSeqConcat, Sort: SeqSort, Args: o2})
}

func (c *Ctx) SeqContains(s, sub *Term) *Term {
	if s.Op == OpSeqConst && sub.Op == OpSeqConst {
		return c.Bool(strings.Contains(s.Name, sub.Name))
	}
	if sub.Op == OpSeqConst && sub.Name == "" {
		return c.T
	}
	return c.mk(&Term{Op: OpSeqContains, Sort: BoolSort, Args: []*Term{s, sub}})
}

func (c *Ctx) SeqPrefixOf(pre, s *Term) *Term {
	if s.Op == OpSeqConst && pre.Op == OpSeqConst {
		return c.Bool(strings.HasPrefix(s.Name, pre.Name))
	}
	if pre.Op == OpSeqConst && pre.Name == "" {
		return c.T
	}
	return c.mk(&Term{Op: OpSeqPrefixOf, Sort: BoolSort, Args: []*Term{pre, s}})
}

func (c *Ctx) SeqSuffixOf(suf, s *Term) *Term {
	if s.Op == OpSeqConst && suf.Op == OpSeqConst {
		return c.Bool(strings.HasSuffix(s.Name, suf.Name))
	}
	if suf.Op == OpSeqConst && suf.Name == "" {
		return c.T
	}
	return c.mk(&Term{Op: OpSeqSuffixOf, Sort: BoolSort, Args: []*Term{suf, s}})
}

// SeqLen64 is the length of s as a 64-bit value.
func (c *Ctx) SeqLen64(s *Term) *Term {
	if s.Op == OpSeqConst {
		return c.BVConst(uint64(len(s.Name)), 64)
	}
	return c.mk(&Term{Op: OpSeqLen64, Sort: BV(64), Args: []*Term{s}})
}

// SeqNth is s[idx] for a 64-bit index term.
func (c *Ctx) SeqNth(s, idx *Term) *Term {
	if s.Op == OpSeqConst && idx.Op == OpBVConst && idx.Val < uint64(len(s.Name)) {
		return c.BVConst(uint64(s.Name[idx.Val]), 8)
	}
	return c.mk(&Term{Op: OpSeqNth, Sort: BV(8), Args: []*Term{s, idx}})
}

// SeqIndex64 is strings.Index(s, sub) as a 64-bit value.
func (c *Ctx) SeqIndex64(s, sub *Term) *Term {
	if s.Op == OpSeqConst && sub.Op == OpSeqConst {
		return c.BVConst(uint64(int64(strings.Index(s.Name, sub.Name))), 64)
	}
	return c.mk(&Term{Op: OpSeqIndex64, Sort: BV(64), Args: []*Term{s, sub}})
}

// ---------------------------------------------------------------------
// printing

func quoteSym(name string) string {
	ok := true
	for _, r := range name {
		if !(r >= 'a' && r <= 'z' || r >= 'A' && r <= 'Z' || r >= '0' && r <= '9' || strings.ContainsRune("_.$@!%^&*-+=<>/?~", r)) {
			ok = false
		}
	}
	if ok && name != "" && !(name[0] >= '0' && name[0] <= '9') {
		return name
	}
	return "|" + strings.NewReplacer("|", "_", "\\", "_").Replace(name) + "|"
}

func bvLit(v uint64, w int) string {
	if w%4 == 0 {
		return fmt.Sprintf("#x%0*x", w/4, v&mask(w))
	}
	return fmt.Sprintf("#b%0*b", w, v&mask(w))
}

func seqLit(s string) string {
	if s == "" {
		return "(as seq.empty (Seq (_ BitVec 8)))"
	}
	if len(s) == 1 {
		return "(seq.unit " + bvLit(uint64(s[0]), 8) + ")"
	}
	var sb strings.Builder
	sb.WriteString("(seq.++")
	for i := 0; i < len(s); i++ {
		sb.WriteString(" (seq.unit ")
		sb.WriteString(bvLit(uint64(s[i]), 8))
		sb.WriteString(")")
	}
	sb.WriteString(")")
	return sb.String()
}

// Print renders t as an SMT-LIB2 expression, let-binding shared sub-terms.
func Print(t *Term) string {
	refs := map[*Term]int{}
	var order []*Term
	var visit func(*Term)
	visit = func(x *Term) {
		refs[x]++
		if refs[x] > 1 {
			return
		}
		for _, a := range x.Args {
			visit(a)
		}
		order = append(order, x) // post-order: children first
	}
	visit(t)
	names := map[*Term]string{}
	var sb strings.Builder
	nlet := 0
	var pr func(x *Term) string
	pr = func(x *Term) string {
		if n, ok := names[x]; ok {
			return n
		}
		switch x.Op {
		case OpTrue:
			return "true"
		case OpFalse:
			return "false"
		case OpBVConst:
			return bvLit(x.Val, x.Sort.W)
		case OpSeqConst:
			return seqLit(x.Name)
		case OpVar:
			return quoteSym(x.Name)
		}
		var b strings.Builder
		switch x.Op {
		case OpExtract:
			fmt.Fprintf(&b, "((_ extract %d %d)", x.A, x.B)
		case OpZeroExt:
			fmt.Fprintf(&b, "((_ zero_extend %d)", x.A)
		case OpSignExt:
			fmt.Fprintf(&b, "((_ sign_extend %d)", x.A)
		case OpApp:
			if len(x.Args) == 0 {
				return quoteSym(x.Name)
			}
			b.WriteString("(" + quoteSym(x.Name))
		case OpSeqLen64:
			return "((_ int2bv 64) (seq.len " + pr(x.Args[0]) + "))"
		case OpSeqIndex64:
			return "((_ int2bv 64) (seq.indexof " + pr(x.Args[0]) + " " + pr(x.Args[1]) + " 0))"
		case OpSeqNth:
			// the index in the integer theory: a constant, len(s)-k, or bv2int
			s0, idx := x.Args[0], x.Args[1]
			switch {
			case idx.Op == OpBVConst:
				return fmt.Sprintf("(seq.nth %s %d)", pr(s0), idx.Val)
			case idx.Op == OpBVSub && idx.Args[0].Op == OpSeqLen64 && idx.Args[0].Args[0] == s0 && idx.Args[1].Op == OpBVConst:
				return fmt.Sprintf("(seq.nth %s (- (seq.len %s) %d))", pr(s0), pr(s0), idx.Args[1].Val)
			case idx.Op == OpBVAdd && idx.Args[0].Op == OpSeqLen64 && idx.Args[0].Args[0] == s0 && idx.Args[1].Op == OpBVConst && int64(idx.Args[1].Val) < 0:
				return fmt.Sprintf("(seq.nth %s (- (seq.len %s) %d))", pr(s0), pr(s0), -int64(idx.Args[1].Val))
			case idx.Op == OpBVAdd && idx.Args[1].Op == OpSeqLen64 && idx.Args[1].Args[0] == s0 && idx.Args[0].Op == OpBVConst && int64(idx.Args[0].Val) < 0:
				return fmt.Sprintf("(seq.nth %s (- (seq.len %s) %d))", pr(s0), pr(s0), -int64(idx.Args[0].Val))
			}
			return "(seq.nth " + pr(s0) + " (bv2int " + pr(idx) + "))"
		default:
			b.WriteString("(" + opNames[x.Op])
		}
		for _, a := range x.Args {
			b.WriteString(" ")
			b.WriteString(pr(a))
		}
		b.WriteString(")")
		return b.String()
	}
	for _, x := range order {
		if x == t || refs[x] < 2 || len(x.Args) == 0 {
			continue
		}
		body := pr(x)
		n := fmt.Sprintf("?l%d", nlet)
		nlet++
		fmt.Fprintf(&sb, "(let ((%s %s)) ", n, body)
		names[x] = n
	}
	sb.WriteString(pr(t))
	sb.WriteString(strings.Repeat(")", nlet))
	return sb.String()
}

// CollectVars returns the variables and uninterpreted functions used in t.
func CollectVars(t *Term, seen map[*Term]bool, vars *[]*Term) {
	if seen[t] {
		return
	}
	seen[t] = true
	if t.Op == OpVar {
		*vars = append(*vars, t)
	}
	for _, a := range t.Args {
		CollectVars(a, seen, vars)
	}
}
