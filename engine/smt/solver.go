package smt

import (
	"bufio"
	"fmt"
	"io"
	"os/exec"
	"strconv"
	"strings"
	"time"
)

type Result int

const (
	Unsat Result = iota
	Sat
	Unknown
)

func (r Result) String() string { return [...]string{"unsat", "sat", "unknown"}[r] }

// Solver drives one persistent SMT solver process over stdin/stdout.
type Solver struct {
	Name      string
	cmd       *exec.Cmd
	in        io.WriteCloser
	out       *bufio.Reader
	declared  map[string]bool
	level     int
	seq       int
	Queries   int
	Time      time.Duration
	TimeoutMs int
	Log       io.Writer
	dead      bool
}

// NewSolver starts a solver. kind is "z3", "z3-new" or "cvc5".
func NewSolver(kind string, timeoutMs int) (*Solver, error) {
	var cmd *exec.Cmd
	switch kind {
	case "z3":
		cmd = exec.Command("/usr/bin/z3", "-in", "-smt2")
	case "z3-new":
		cmd = exec.Command("z3-new", "-in", "-smt2")
	case "cvc5":
		cmd = exec.Command("cvc5", "--incremental", "--strings-exp", "--lang=smt2", "--produce-models", fmt.Sprintf("--tlimit-per=%d", timeoutMs))
	default:
		return nil, fmt.Errorf("unknown solver %q", kind)
	}
	in, err := cmd.StdinPipe()
	if err != nil {
		return nil, err
	}
	outp, err := cmd.StdoutPipe()
	if err != nil {
		return nil, err
	}
	cmd.Stderr = nil
	if err := cmd.Start(); err != nil {
		return nil, err
	}
	s := &Solver{Name: kind, cmd: cmd, in: in, out: bufio.NewReaderSize(outp, 1<<16), declared: map[string]bool{}, TimeoutMs: timeoutMs}
	if kind == "cvc5" {
		s.send("(set-logic ALL)")
	} else {
		s.send("(set-option :produce-models true)")
		s.send(fmt.Sprintf("(set-option :timeout %d)", timeoutMs))
	}
	if _, err := s.sync(); err != nil {
		return nil, err
	}
	return s, nil
}

func (s *Solver) Close() {
	if s.cmd != nil {
		s.in.Close()
		s.cmd.Process.Kill()
		s.cmd.Wait()
		s.cmd = nil
	}
}

func (s *Solver) send(line string) {
	if s.Log != nil {
		fmt.Fprintln(s.Log, line)
	}
	io.WriteString(s.in, line)
	io.WriteString(s.in, "\n")
}

// sync echoes a marker and returns all output lines before it.
func (s *Solver) sync() ([]string, error) {
	s.seq++
	marker := fmt.Sprintf("<<sync-%d>>", s.seq)
	s.send(fmt.Sprintf("(echo \"%s\")", marker))
	var lines []string
	for {
		line, err := s.out.ReadString('\n')
		if err != nil {
			s.dead = true
			return lines, fmt.Errorf("solver %s died: %v (output so far: %v)", s.Name, err, lines)
		}
		line = strings.TrimSpace(line)
		if line == marker || line == "\""+marker+"\"" {
			return lines, nil
		}
		if line != "" {
			if s.Log != nil {
				fmt.Fprintln(s.Log, "; <-", line)
			}
			lines = append(lines, line)
		}
	}
}

func (s *Solver) declare(t *Term, seen map[*Term]bool) {
	if seen[t] {
		return
	}
	seen[t] = true
	switch t.Op {
	case OpVar:
		if !s.declared["v:"+t.Name] {
			if s.level != 0 {
				// declarations must survive pops: they are always made at level 0
				panic("smt: declare at non-zero level")
			}
			s.declared["v:"+t.Name] = true
			s.send(fmt.Sprintf("(declare-const %s %s)", quoteSym(t.Name), t.Sort))
		}
	case OpApp:
		if !s.declared["f:"+t.Name] {
			s.declared["f:"+t.Name] = true
			var as []string
			for _, a := range t.Args {
				as = append(as, a.Sort.String())
			}
			s.send(fmt.Sprintf("(declare-fun %s (%s) %s)", quoteSym(t.Name), strings.Join(as, " "), t.Sort))
		}
	}
	for _, a := range t.Args {
		s.declare(a, seen)
	}
}

// Check decides satisfiability of the conjunction of assertions. When the
// result is Sat and want is non-empty the values of those terms are
// returned (bit-vectors as uint64, Bools as 0/1, sequences as string).
// Any solver error makes the result Unknown with err set.
func (s *Solver) Check(assertions []*Term, want []*Term) (Result, map[*Term]interface{}, error) {
	if s.dead {
		return Unknown, nil, fmt.Errorf("solver dead")
	}
	start := time.Now()
	defer func() { s.Time += time.Since(start); s.Queries++ }()
	seen := map[*Term]bool{}
	for _, a := range assertions {
		s.declare(a, seen)
	}
	for _, w := range want {
		s.declare(w, seen)
	}
	s.send("(push 1)")
	for _, a := range assertions {
		s.send("(assert " + Print(a) + ")")
	}
	s.send("(check-sat)")
	lines, err := s.sync()
	if err != nil {
		return Unknown, nil, err
	}
	res := Unknown
	var serr error
	for _, l := range lines {
		switch {
		case l == "sat":
			res = Sat
		case l == "unsat":
			res = Unsat
		case l == "unknown":
			res = Unknown
		case strings.HasPrefix(l, "(error "):
			serr = fmt.Errorf("solver error: %s", l)
		}
	}
	if serr != nil {
		s.send("(pop 1)")
		s.sync()
		return Unknown, nil, serr
	}
	var model map[*Term]interface{}
	if res == Sat && len(want) > 0 {
		model = map[*Term]interface{}{}
		// ask in chunks to keep lines manageable
		for i := 0; i < len(want); i += 50 {
			j := i + 50
			if j > len(want) {
				j = len(want)
			}
			var sb strings.Builder
			sb.WriteString("(get-value (")
			for _, w := range want[i:j] {
				sb.WriteString(Print(w))
				sb.WriteString(" ")
			}
			sb.WriteString("))")
			s.send(sb.String())
			lines, err := s.sync()
			if err != nil {
				return Unknown, nil, err
			}
			txt := strings.Join(lines, " ")
			isErr := false
			for _, l := range lines {
				if strings.HasPrefix(l, "(error ") {
					isErr = true
				}
			}
			if isErr {
				s.send("(pop 1)")
				s.sync()
				return Unknown, nil, fmt.Errorf("solver error in get-value: %s", txt)
			}
			sx, _, perr := parseSexp(txt, 0)
			if perr != nil {
				s.send("(pop 1)")
				s.sync()
				return Unknown, nil, fmt.Errorf("cannot parse model: %v: %s", perr, txt)
			}
			if len(sx.list) != j-i {
				s.send("(pop 1)")
				s.sync()
				return Unknown, nil, fmt.Errorf("model has %d entries, want %d: %s", len(sx.list), j-i, txt)
			}
			for k, w := range want[i:j] {
				pair := sx.list[k]
				if len(pair.list) != 2 {
					return Unknown, nil, fmt.Errorf("bad model pair: %s", txt)
				}
				v, verr := evalValue(pair.list[1], w.Sort)
				if verr != nil {
					s.send("(pop 1)")
					s.sync()
					return Unknown, nil, fmt.Errorf("cannot evaluate model value: %v: %s", verr, txt)
				}
				model[w] = v
			}
		}
	}
	s.send("(pop 1)")
	if _, err := s.sync(); err != nil {
		return Unknown, nil, err
	}
	return res, model, nil
}

type sexp struct {
	atom string
	list []*sexp
	isL  bool
}

func parseSexp(s string, i int) (*sexp, int, error) {
	for i < len(s) && (s[i] == ' ' || s[i] == '\n' || s[i] == '\t') {
		i++
	}
	if i >= len(s) {
		return nil, i, fmt.Errorf("unexpected end")
	}
	if s[i] == '(' {
		i++
		x := &sexp{isL: true}
		for {
			for i < len(s) && (s[i] == ' ' || s[i] == '\n' || s[i] == '\t') {
				i++
			}
			if i >= len(s) {
				return nil, i, fmt.Errorf("unbalanced")
			}
			if s[i] == ')' {
				return x, i + 1, nil
			}
			c, j, err := parseSexp(s, i)
			if err != nil {
				return nil, j, err
			}
			x.list = append(x.list, c)
			i = j
		}
	}
	if s[i] == '"' {
		j := i + 1
		for j < len(s) {
			if s[j] == '"' {
				if j+1 < len(s) && s[j+1] == '"' {
					j += 2
					continue
				}
				break
			}
			j++
		}
		return &sexp{atom: s[i : j+1]}, j + 1, nil
	}
	if s[i] == '|' {
		j := strings.IndexByte(s[i+1:], '|')
		if j < 0 {
			return nil, i, fmt.Errorf("unbalanced |")
		}
		return &sexp{atom: s[i : i+j+2]}, i + j + 2, nil
	}
	j := i
	for j < len(s) && s[j] != ' ' && s[j] != ')' && s[j] != '(' && s[j] != '\n' {
		j++
	}
	return &sexp{atom: s[i:j]}, j, nil
}

func evalValue(x *sexp, sort Sort) (interface{}, error) {
	switch sort.K {
	case KBool:
		switch x.atom {
		case "true":
			return uint64(1), nil
		case "false":
			return uint64(0), nil
		}
		return nil, fmt.Errorf("bad bool %q", x.atom)
	case KBV:
		return evalBV(x)
	default:
		var out []byte
		if err := evalSeq(x, &out); err != nil {
			return nil, err
		}
		return string(out), nil
	}
}

func evalBV(x *sexp) (uint64, error) {
	if !x.isL {
		switch {
		case strings.HasPrefix(x.atom, "#x"):
			return strconv.ParseUint(x.atom[2:], 16, 64)
		case strings.HasPrefix(x.atom, "#b"):
			return strconv.ParseUint(x.atom[2:], 2, 64)
		}
		return 0, fmt.Errorf("bad bv %q", x.atom)
	}
	// (_ bv123 8)
	if len(x.list) == 3 && x.list[0].atom == "_" && strings.HasPrefix(x.list[1].atom, "bv") {
		return strconv.ParseUint(x.list[1].atom[2:], 10, 64)
	}
	return 0, fmt.Errorf("bad bv list")
}

func evalSeq(x *sexp, out *[]byte) error {
	if !x.isL {
		if strings.HasPrefix(x.atom, "\"") {
			// z3 may print a seq of bytes as a string literal in some modes
			s := x.atom[1 : len(x.atom)-1]
			for i := 0; i < len(s); i++ {
				if s[i] == '\\' && i+1 < len(s) && s[i+1] == 'u' {
					// \u{XX}
					j := strings.IndexByte(s[i:], '}')
					if j > 0 {
						v, err := strconv.ParseUint(s[i+3:i+j], 16, 32)
						if err != nil {
							return err
						}
						*out = append(*out, byte(v))
						i += j
						continue
					}
				}
				*out = append(*out, s[i])
			}
			return nil
		}
		return fmt.Errorf("bad seq atom %q", x.atom)
	}
	if len(x.list) == 0 {
		return fmt.Errorf("empty list in seq")
	}
	switch x.list[0].atom {
	case "as":
		// (as seq.empty (Seq ...))
		return nil
	case "seq.unit":
		v, err := evalBV(x.list[1])
		if err != nil {
			return err
		}
		*out = append(*out, byte(v))
		return nil
	case "seq.++":
		for _, c := range x.list[1:] {
			if err := evalSeq(c, out); err != nil {
				return err
			}
		}
		return nil
	}
	return fmt.Errorf("bad seq head %q", x.list[0].atom)
}
