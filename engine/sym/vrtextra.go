package sym

import (
	"verif/engine/smt"
)

// maxInternalSec is the number of seconds from 0001-01-01T00:00:00Z to
// 9999-12-31T23:59:59Z, the range vrt.Time covers.
const maxInternalSec = 315537897599

func init() {
	intrinsics[vrtPkg+".Param"] = func(in *Interp, fr *frame, a []Value) (Value, bool) {
		name := a[0].(string)
		if v, ok := in.prog.Params[name]; ok {
			return mkInt(uint64(int64(v)), 64), true
		}
		return a[1], true
	}
	// Time: wall = 0 (no monotonic reading, zero nanoseconds), ext = seconds
	// since year 1 (symbolic), loc = nil (UTC).
	intrinsics[vrtPkg+".Time"] = func(in *Interp, fr *frame, a []Value) (Value, bool) {
		name := in.freshName(a[0].(string))
		t := in.ctx.Var(name, smt.BV(64))
		in.inputs = append(in.inputs, inputVar{Name: name, Kind: "time", Terms: []*smt.Term{t}, W: 64})
		c := in.ctx
		in.assume(fromTerm(c.And(c.Cmp(smt.OpSLe, c.BVConst(0, 64), t), c.Cmp(smt.OpSLe, t, c.BVConst(maxInternalSec, 64)))))
		return Struct{mkInt(0, 64), SymInt{t}, (*Value)(nil)}, true
	}
}

const icalPropDateTime = "(*github.com/emersion/go-ical.Prop).DateTime"
const icalPropDuration = "(*github.com/emersion/go-ical.Prop).Duration"

func init() {
	// Date: an instant at midnight UTC: ext = day*86400, day in [1, 3652058].
	intrinsics[vrtPkg+".Date"] = func(in *Interp, fr *frame, a []Value) (Value, bool) {
		name := in.freshName(a[0].(string))
		c := in.ctx
		d := c.Var(name, smt.BV(64))
		in.inputs = append(in.inputs, inputVar{Name: name, Kind: "int", Terms: []*smt.Term{d}, W: 64})
		in.assume(fromTerm(c.And(c.Cmp(smt.OpSLe, c.BVConst(1, 64), d), c.Cmp(smt.OpSLe, d, c.BVConst(3652058, 64)))))
		return Struct{mkInt(0, 64), fromTerm(c.MulNoOvf(d, 86400)), (*Value)(nil)}, true
	}
	// DurationSec(name, lo, hi): a time.Duration of a whole number of
	// seconds in [lo,hi] (|bounds| < 2^33 so that secs*1e9 cannot overflow).
	intrinsics[vrtPkg+".DurationSec"] = func(in *Interp, fr *frame, a []Value) (Value, bool) {
		name := in.freshName(a[0].(string))
		c := in.ctx
		s := c.Var(name, smt.BV(64))
		in.inputs = append(in.inputs, inputVar{Name: name, Kind: "int", Terms: []*smt.Term{s}, W: 64})
		lo, hi := asInt64(a[1]), asInt64(a[2])
		if lo < -(1<<33) || hi > 1<<33 {
			panic(unsupported("DurationSec bounds too large"))
		}
		in.assume(fromTerm(c.And(c.Cmp(smt.OpSLe, c.BVConst(uint64(lo), 64), s), c.Cmp(smt.OpSLe, s, c.BVConst(uint64(hi), 64)))))
		return fromTerm(c.MulNoOvf(s, 1000000000)), true
	}
	// Labels: the harness writes an instant / duration into an iCalendar
	// property value through these; symbolically the value is a unique
	// concrete label and the go-ical parsers are replaced by a lookup.
	label := func(prefix string) intrinsic {
		return func(in *Interp, fr *frame, a []Value) (Value, bool) {
			l := prefix + string(rune('A'+len(in.labels)%26)) + string(rune('a'+len(in.labels)/26))
			in.labels[l] = a[0]
			return l, true
		}
	}
	intrinsics[vrtPkg+".ICalTime"] = label("\x00VT")
	intrinsics[vrtPkg+".ICalDate"] = label("\x00VD")
	intrinsics[vrtPkg+".ICalDuration"] = label("\x00VP")
	intrinsics[icalPropDateTime] = func(in *Interp, fr *frame, a []Value) (Value, bool) {
		p := a[0].(*Value)
		if p == nil {
			return nil, false
		}
		v, ok := (*p).(Struct)[2].(string)
		if !ok {
			panic(unsupported("Prop.DateTime on a symbolic value (use vrt.ICalTime labels)"))
		}
		if t, ok := in.labels[v]; ok {
			return Tuple{t, Iface{}}, true
		}
		return nil, false
	}
	intrinsics[icalPropDuration] = func(in *Interp, fr *frame, a []Value) (Value, bool) {
		p := a[0].(*Value)
		if p == nil {
			return nil, false
		}
		v, ok := (*p).(Struct)[2].(string)
		if !ok {
			panic(unsupported("Prop.Duration on a symbolic value (use vrt.ICalDuration labels)"))
		}
		if d, ok := in.labels[v]; ok {
			return Tuple{d, Iface{}}, true
		}
		return nil, false
	}
}
