package sym

import (
	"fmt"
	"go/token"
	"go/types"
	"reflect"
	"strings"
	"time"

	"golang.org/x/tools/go/ssa"

	"verif/engine/smt"
)

// maxInternalSec is the number of seconds from 0001-01-01T00:00:00Z to
// 9999-12-31T23:59:59Z, the range vrt.Time covers.
const maxInternalSec = 315537897599

func init() {
	intrinsics[vrtPkg+".Param"] = func(in *Interp, fr *frame, a []Value) (Value, bool) {
		name := a[0].(string)
		if v, ok := in.prog.Params[name]; ok {
			return mkInt(uint64(int64(v)), 64), true
		}
		return a[1], true
	}
	// Time: wall = 0 (no monotonic reading, zero nanoseconds), ext = seconds
	// since year 1 (symbolic), loc = nil (UTC).
	intrinsics[vrtPkg+".Time"] = func(in *Interp, fr *frame, a []Value) (Value, bool) {
		name := in.freshName(a[0].(string))
		t := in.ctx.Var(name, smt.BV(64))
		in.inputs = append(in.inputs, inputVar{Name: name, Kind: "time", Terms: []*smt.Term{t}, W: 64})
		c := in.ctx
		in.assumeFresh(c.And(c.Cmp(smt.OpSLe, c.BVConst(0, 64), t), c.Cmp(smt.OpSLe, t, c.BVConst(maxInternalSec, 64))))
		return Struct{mkInt(0, 64), SymInt{t}, (*Value)(nil)}, true
	}
}

const icalPropDateTime = "(*github.com/emersion/go-ical.Prop).DateTime"
const icalPropDuration = "(*github.com/emersion/go-ical.Prop).Duration"

func init() {
	// Date: an instant at midnight UTC: ext = day*86400, day in [1, 3652058].
	intrinsics[vrtPkg+".Date"] = func(in *Interp, fr *frame, a []Value) (Value, bool) {
		name := in.freshName(a[0].(string))
		c := in.ctx
		d := c.Var(name, smt.BV(64))
		in.inputs = append(in.inputs, inputVar{Name: name, Kind: "int", Terms: []*smt.Term{d}, W: 64})
		in.assumeFresh(c.And(c.Cmp(smt.OpSLe, c.BVConst(1, 64), d), c.Cmp(smt.OpSLe, d, c.BVConst(3652058, 64))))
		return Struct{mkInt(0, 64), fromTerm(c.MulNoOvf(d, 86400)), (*Value)(nil)}, true
	}
	// DurationSec(name, lo, hi): a time.Duration of a whole number of
	// seconds in [lo,hi] (|bounds| < 2^33 so that secs*1e9 cannot overflow).
	intrinsics[vrtPkg+".DurationSec"] = func(in *Interp, fr *frame, a []Value) (Value, bool) {
		name := in.freshName(a[0].(string))
		c := in.ctx
		s := c.Var(name, smt.BV(64))
		in.inputs = append(in.inputs, inputVar{Name: name, Kind: "int", Terms: []*smt.Term{s}, W: 64})
		lo, hi := asInt64(a[1]), asInt64(a[2])
		if lo < -(1<<33) || hi > 1<<33 {
			panic(unsupported("DurationSec bounds too large"))
		}
		if lo > hi {
			panic(abortPath{"empty range"})
		}
		in.assumeFresh(c.And(c.Cmp(smt.OpSLe, c.BVConst(uint64(lo), 64), s), c.Cmp(smt.OpSLe, s, c.BVConst(uint64(hi), 64))))
		return fromTerm(c.MulNoOvf(s, 1000000000)), true
	}
	// Labels: the harness writes an instant / duration into an iCalendar
	// property value through these; symbolically the value is a unique
	// concrete label and the go-ical parsers are replaced by a lookup.
	label := func(prefix string) intrinsic {
		return func(in *Interp, fr *frame, a []Value) (Value, bool) {
			l := prefix + string(rune('A'+len(in.labels)%26)) + string(rune('a'+len(in.labels)/26))
			in.labels[l] = a[0]
			return l, true
		}
	}
	intrinsics[vrtPkg+".ICalTime"] = label("\x00VT")
	intrinsics[vrtPkg+".ICalDate"] = label("\x00VD")
	intrinsics[vrtPkg+".ICalDuration"] = label("\x00VP")
	intrinsics[icalPropDateTime] = func(in *Interp, fr *frame, a []Value) (Value, bool) {
		p := a[0].(*Value)
		if p == nil {
			return nil, false
		}
		v, ok := (*p).(Struct)[2].(string)
		if !ok {
			panic(unsupported("Prop.DateTime on a symbolic value (use vrt.ICalTime labels)"))
		}
		if t, ok := in.labels[v]; ok {
			return Tuple{t, Iface{}}, true
		}
		return nil, false
	}
	intrinsics[icalPropDuration] = func(in *Interp, fr *frame, a []Value) (Value, bool) {
		p := a[0].(*Value)
		if p == nil {
			return nil, false
		}
		v, ok := (*p).(Struct)[2].(string)
		if !ok {
			panic(unsupported("Prop.Duration on a symbolic value (use vrt.ICalDuration labels)"))
		}
		if d, ok := in.labels[v]; ok {
			return Tuple{d, Iface{}}, true
		}
		return nil, false
	}
}

// ---------------------------------------------------------------------
// time.Time.Format / time.Parse: native on concrete operands; otherwise
// uninterpreted functions of (layout, instant, zone) resp. (layout, text),
// with the round-trip law parse(format(t)) = t-to-the-second applied when
// the parsed text is syntactically a format term of the same layout in UTC.

const unixToInternal = 62135596800

// zoneID gives a *time.Location value a small identity: 0 for nil and the
// UTC singleton, a fresh number per other location object.
func (in *Interp) zoneID(loc Value) int {
	p, _ := loc.(*Value)
	if p == nil {
		return 0
	}
	if tp := in.prog.Pkgs["time"]; tp != nil {
		if g, ok := tp.Members["utcLoc"].(*ssa.Global); ok {
			if in.global(g) == p {
				return 0
			}
		}
	}
	key := fmt.Sprintf("zone:%p", p)
	if v, ok := in.labels[key]; ok {
		return int(v.(Int).V)
	}
	id := 1
	for k := range in.labels {
		if strings.HasPrefix(k, "zone:") {
			id++
		}
	}
	in.labels[key] = mkInt(uint64(id), 64)
	return id
}

// nativeTime converts a concrete time.Time value (UTC or nil location).
func (in *Interp) nativeTime(v Value) (time.Time, bool) {
	s, ok := v.(Struct)
	if !ok || len(s) != 3 {
		return time.Time{}, false
	}
	wall, ok1 := s[0].(Int)
	ext, ok2 := s[1].(Int)
	if !ok1 || !ok2 || in.zoneID(s[2]) != 0 {
		return time.Time{}, false
	}
	if wall.V&(1<<63) != 0 {
		return time.Time{}, false // monotonic reading present
	}
	nsec := int64(wall.V & (1<<30 - 1))
	return time.Unix(ext.Signed()-unixToInternal, nsec).UTC(), true
}

func (in *Interp) timeValue(t time.Time) Value {
	t = t.UTC()
	sec := t.Unix() + unixToInternal
	return Struct{mkInt(uint64(t.Nanosecond()), 64), mkInt(uint64(sec), 64), (*Value)(nil)}
}

func init() {
	intrinsics["(time.Time).Format"] = func(in *Interp, fr *frame, a []Value) (Value, bool) {
		layout, ok := a[1].(string)
		if !ok {
			panic(unsupported("time.Format with a symbolic layout"))
		}
		if nt, ok := in.nativeTime(a[0]); ok {
			return nt.Format(layout), true
		}
		s := a[0].(Struct)
		zone := in.zoneID(s[2])
		return in.nonEmptyApp("time_format:"+layout, in.term(s[0]), in.term(s[1]), in.ctx.BVConst(uint64(zone), 8)), true
	}
	parse := func(in *Interp, layoutV, textV Value) Value {
		layout, ok := layoutV.(string)
		if !ok {
			panic(unsupported("time.Parse with a symbolic layout"))
		}
		if text, ok := textV.(string); ok {
			t, err := time.Parse(layout, text)
			if err != nil {
				return Tuple{Struct{mkInt(0, 64), mkInt(0, 64), (*Value)(nil)}, in.newError(err.Error())}
			}
			return Tuple{in.timeValue(t), Iface{}}
		}
		tt := in.seqTerm(textV)
		c := in.ctx
		if tt.Op == smt.OpApp && tt.Name == "time_format:"+layout && tt.Args[2].Op == smt.OpBVConst && tt.Args[2].Val == 0 {
			// law: parsing what Format produced for a UTC time gives the
			// instant back, to the second (the layouts in use carry no
			// fractional seconds)
			return Tuple{Struct{mkInt(0, 64), fromTerm(tt.Args[1]), (*Value)(nil)}, Iface{}}
		}
		okT := c.App("time_parse_ok:"+layout, smt.BoolSort, tt)
		if !in.decide(okT) {
			return Tuple{Struct{mkInt(0, 64), mkInt(0, 64), (*Value)(nil)}, in.newError("parsing time: symbolic failure")}
		}
		sec := c.App("time_parse_sec:"+layout, smt.BV(64), tt)
		return Tuple{Struct{mkInt(0, 64), fromTerm(sec), (*Value)(nil)}, Iface{}}
	}
	intrinsics["time.Parse"] = func(in *Interp, fr *frame, a []Value) (Value, bool) {
		if _, ok := a[1].(XStr); ok {
			// exploded text (a template with a few symbolic bytes): the
			// real parser runs from its SSA
			return nil, false
		}
		return parse(in, a[0], a[1]), true
	}
	intrinsics["time.ParseInLocation"] = func(in *Interp, fr *frame, a []Value) (Value, bool) {
		if in.zoneID(a[2]) != 0 {
			if _, ok := a[1].(string); ok {
				return nil, false
			}
			panic(unsupported("time.ParseInLocation of symbolic text outside UTC"))
		}
		return parse(in, a[0], a[1]), true
	}
	// TimeIn(name, zone): an arbitrary instant carried in one of three
	// zones: 0 UTC, 1 a fixed +01:00 zone, 2 a fixed -05:00 zone.
	intrinsics[vrtPkg+".TimeIn"] = func(in *Interp, fr *frame, a []Value) (Value, bool) {
		name := in.freshName(a[0].(string))
		t := in.ctx.Var(name, smt.BV(64))
		in.inputs = append(in.inputs, inputVar{Name: name, Kind: "time", Terms: []*smt.Term{t}, W: 64})
		c := in.ctx
		in.assumeFresh(c.And(c.Cmp(smt.OpSLe, c.BVConst(86400, 64), t), c.Cmp(smt.OpSLe, t, c.BVConst(maxInternalSec-86400, 64))))
		zone := int(asInt64(a[1]))
		var loc Value = (*Value)(nil)
		if zone != 0 {
			key := fmt.Sprintf("fixedzone:%d", zone)
			if l, ok := in.labels[key]; ok {
				loc = l
			} else {
				fz := in.prog.lookupFunc("time", "FixedZone")
				off := int64(3600)
				nm := "VZ1"
				if zone == 2 {
					off = -18000
					nm = "VZ2"
				}
				loc = in.call(fr, token.NoPos, fz, []Value{nm, mkInt(uint64(off), 64)})
				in.labels[key] = loc
			}
		}
		return Struct{mkInt(0, 64), SymInt{t}, loc}, true
	}
}

// internal.valueXMLName reads the xml struct tag of the XMLName field; the
// real function does this through reflect, here go/types supplies the tag.
func init() {
	intrinsics["github.com/emersion/go-webdav/internal.valueXMLName"] = func(in *Interp, fr *frame, a []Value) (Value, bool) {
		zeroName := Struct{"", ""}
		v := a[0].(Iface)
		if v.T == nil {
			panic(runtimeError("invalid memory address or nil pointer dereference (reflect.TypeOf(nil).Kind)"))
		}
		t := v.T
		for {
			p, ok := t.Underlying().(*types.Pointer)
			if !ok {
				break
			}
			t = p.Elem()
		}
		st, ok := t.Underlying().(*types.Struct)
		if !ok {
			return Tuple{zeroName, in.newError("webdav: " + types.TypeString(v.T, nil) + " is not a struct")}, true
		}
		for i := 0; i < st.NumFields(); i++ {
			f := st.Field(i)
			if f.Name() != "XMLName" {
				continue
			}
			if types.TypeString(f.Type(), nil) != "encoding/xml.Name" {
				return Tuple{zeroName, in.newError("webdav: XMLName isn't an xml.Name")}, true
			}
			tag := reflect.StructTag(st.Tag(i)).Get("xml")
			if tag == "" {
				return Tuple{zeroName, in.newError("webdav: XMLName is missing an xml tag")}, true
			}
			name := strings.Split(tag, ",")[0]
			parts := strings.Split(name, " ")
			if len(parts) != 2 {
				return Tuple{zeroName, in.newError("webdav: expected a namespace and local name in XMLName's xml tag")}, true
			}
			return Tuple{Struct{parts[0], parts[1]}, Iface{}}, true
		}
		return Tuple{zeroName, in.newError("webdav: missing an XMLName struct field")}, true
	}
}

func init() {
	// StrNIn(name, n, lo, hi): n fresh bytes each in [lo,hi]; the range
	// constraint is on fresh variables, hence always satisfiable, and is
	// added to the path condition without a solver query.
	intrinsics[vrtPkg+".StrNIn"] = func(in *Interp, fr *frame, a []Value) (Value, bool) {
		name := in.freshName(a[0].(string))
		n := int(asInt64(a[1]))
		lo, hi := a[2].(Int).V, a[3].(Int).V
		iv := inputVar{Name: name, Kind: "strn"}
		b := make([]Value, n)
		c := in.ctx
		for i := 0; i < n; i++ {
			t := c.Var(fmt.Sprintf("%s.%d", name, i), smt.BV(8))
			iv.Terms = append(iv.Terms, t)
			b[i] = SymInt{t}
			in.addPC(c.Cmp(smt.OpULe, c.BVConst(lo, 8), t))
			in.addPC(c.Cmp(smt.OpULe, t, c.BVConst(hi, 8)))
		}
		in.inputs = append(in.inputs, iv)
		return mkXStr(b), true
	}
}

// Text codecs on opaque strings, as uninterpreted functions with their
// round-trip laws (each law is validated on bounded exploded strings by a
// C16 harness running the real strconv code):
//
//	Unquote(fmt_q(s)) = s          ParseInt(fmt_itoa10(x)) = x
func init() {
	// Summary of a pure callee of the repository, on opaque text only:
	// ETag.UnmarshalText(fmt_q(x)) = x. The byte-level behaviour of the
	// function itself (what it accepts, what it refuses) is the subject of
	// C16_ETag / C16_ETagReject / C16_HeaderTag, which run its real code on
	// every text up to their bound; any other opaque argument falls through
	// to the real code.
	intrinsics["(*github.com/emersion/go-webdav/internal.ETag).UnmarshalText"] = func(in *Interp, fr *frame, a []Value) (Value, bool) {
		ob, ok := a[1].(OBytes)
		if !ok || ob.T.Op != smt.OpApp || ob.T.Name != "fmt_q" {
			return nil, false
		}
		p, ok := a[0].(*Value)
		if !ok || p == nil {
			return nil, false
		}
		*p = fromTerm(ob.T.Args[0])
		return Iface{}, true
	}
	intrinsics["strconv.Unquote"] = func(in *Interp, fr *frame, a []Value) (Value, bool) {
		o, ok := a[0].(OStr)
		if !ok {
			return nil, false
		}
		if o.T.Op == smt.OpApp && o.T.Name == "fmt_q" {
			return Tuple{fromTerm(o.T.Args[0]), Iface{}}, true
		}
		c := in.ctx
		if !in.decide(c.App("unquote_ok", smt.BoolSort, o.T)) {
			return Tuple{"", in.newError("invalid syntax")}, true
		}
		return Tuple{OStr{c.App("unquote", smt.SeqSort, o.T)}, Iface{}}, true
	}
	wideSym := func(in *Interp, v Value) (*smt.Term, bool) {
		si, ok := v.(SymInt)
		if !ok {
			return nil, false
		}
		if d, ok := in.pcDom[si.T]; ok && d.hi-d.lo >= 0 && d.hi-d.lo <= 100000 {
			return nil, false
		}
		return si.T, true
	}
	intrinsics["strconv.FormatInt"] = func(in *Interp, fr *frame, a []Value) (Value, bool) {
		t, ok := wideSym(in, a[0])
		if !ok {
			return nil, false
		}
		base, okb := a[1].(Int)
		if !okb {
			return nil, false
		}
		return in.nonEmptyApp(fmt.Sprintf("fmt_itoa%d", base.V), t), true
	}
	intrinsics["strconv.Itoa"] = func(in *Interp, fr *frame, a []Value) (Value, bool) {
		t, ok := wideSym(in, a[0])
		if !ok {
			return nil, false
		}
		return in.nonEmptyApp("fmt_itoa10", t), true
	}
	intrinsics["strconv.ParseInt"] = func(in *Interp, fr *frame, a []Value) (Value, bool) {
		o, ok := a[0].(OStr)
		if !ok {
			return nil, false
		}
		base, okb := a[1].(Int)
		bits, okc := a[2].(Int)
		if !okb || !okc {
			return nil, false
		}
		if o.T.Op == smt.OpApp && o.T.Name == fmt.Sprintf("fmt_itoa%d", base.V) && (bits.V == 64 || bits.V == 0) {
			return Tuple{fromTerm(o.T.Args[0]), Iface{}}, true
		}
		c := in.ctx
		if !in.decide(c.App("parseint_ok", smt.BoolSort, o.T)) {
			return Tuple{mkInt(0, 64), in.newError("invalid syntax")}, true
		}
		return Tuple{fromTerm(c.App("parseint", smt.BV(64), o.T)), Iface{}}, true
	}
}

func init() {
	// Text is Str for the symbolic run (the native side sanitises)
	intrinsics[vrtPkg+".Text"] = func(in *Interp, fr *frame, a []Value) (Value, bool) {
		return intrinsics[vrtPkg+".Str"](in, fr, a)
	}
}

// (time.Time).Sub on symbolic instants without nanoseconds: the exact
// saturating semantics, with the in-range product marked non-overflowing so
// that a later Add(d) simplifies back to seconds.
func init() {
	intrinsics["(time.Time).Sub"] = func(in *Interp, fr *frame, a []Value) (Value, bool) {
		t, ok1 := a[0].(Struct)
		u, ok2 := a[1].(Struct)
		if !ok1 || !ok2 {
			return nil, false
		}
		_, ts := t[1].(SymInt)
		_, us := u[1].(SymInt)
		if !ts && !us {
			return nil, false
		}
		tw, okt := t[0].(Int)
		uw, oku := u[0].(Int)
		if !okt || !oku || tw.V != 0 || uw.V != 0 {
			return nil, false // nanoseconds or monotonic readings: run the real code
		}
		c := in.ctx
		diff := c.BVBin(smt.OpBVSub, in.term(t[1]), in.term(u[1]))
		const maxSec = 9223372036 // floor(MaxInt64 / 1e9)
		inRange := c.And(c.Cmp(smt.OpSLe, c.BVConst(^uint64(maxSec)+1, 64), diff), c.Cmp(smt.OpSLe, diff, c.BVConst(maxSec, 64)))
		if in.decide(inRange) {
			return fromTerm(c.MulNoOvf(diff, 1000000000)), true
		}
		if in.decide(c.Cmp(smt.OpSLt, c.BVConst(0, 64), diff)) {
			return mkInt(uint64(int64(1<<63-1)), 64), true
		}
		return mkInt(uint64(1)<<63, 64), true
	}
}

// Hook intrinsics: functions of third-party packages whose types a harness
// cannot name (importing the package would force a go.mod change) are
// delegated to a harness function of the package under test, looked up by
// name; the receiver is dropped. Without the hook function the real code runs.
const caldavPkg = "github.com/emersion/go-webdav/caldav"

func (in *Interp) hookFunc(name string) *ssa.Function {
	p := in.prog.Pkgs[caldavPkg]
	if p == nil {
		return nil
	}
	return p.Func(name)
}

func init() {
	drop := func(hook string) intrinsic {
		return func(in *Interp, fr *frame, a []Value) (Value, bool) {
			f := in.hookFunc(hook)
			if f == nil {
				return nil, false
			}
			in.noteStub("hook " + hook)
			return in.call(fr, token.NoPos, f, a[1:]), true
		}
	}
	intrinsics["(*github.com/teambition/rrule-go.Set).Between"] = drop("verifRecBetween")
	intrinsics["(*github.com/teambition/rrule-go.Set).After"] = drop("verifRecAfter")
	intrinsics["(*github.com/teambition/rrule-go.Set).Before"] = drop("verifRecBefore")
	intrinsics["(*github.com/teambition/rrule-go.Set).All"] = drop("verifRecAll")
	intrinsics["(*github.com/emersion/go-ical.Component).RecurrenceSet"] = func(in *Interp, fr *frame, a []Value) (Value, bool) {
		f := in.hookFunc("verifRecurrenceSetHook")
		if f == nil {
			return nil, false
		}
		in.noteStub("hook verifRecurrenceSetHook")
		has := in.call(fr, token.NoPos, f, a[:1])
		// result type: (*rrule.Set, error)
		callee := fr.fn
		res := callee.Signature.Results()
		pt := res.At(0).Type()
		if !in.truth(has) {
			return Tuple{zero(pt), Iface{}}, true
		}
		cell := zero(deref(pt))
		return Tuple{&cell, Iface{}}, true
	}
}

func init() {
	// AppendFormat(b, layout) = append(b, Format(layout)...): supported for an
	// empty b (the common idiom), symbolic result as opaque bytes.
	intrinsics["(time.Time).AppendFormat"] = func(in *Interp, fr *frame, a []Value) (Value, bool) {
		b, ok := a[1].([]Value)
		if !ok {
			return nil, false
		}
		s, _ := intrinsics["(time.Time).Format"](in, fr, []Value{a[0], a[2]})
		switch x := s.(type) {
		case string:
			out := append([]Value{}, b...)
			for i := 0; i < len(x); i++ {
				out = append(out, mkInt(uint64(x[i]), 8))
			}
			return out, true
		case OStr:
			if len(b) == 0 {
				return OBytes{x.T}, true
			}
		}
		panic(unsupported("time.AppendFormat of a symbolic time onto a non-empty buffer"))
	}
}
