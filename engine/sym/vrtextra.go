package sym

import (
	"verif/engine/smt"
)

// maxInternalSec is the number of seconds from 0001-01-01T00:00:00Z to
// 9999-12-31T23:59:59Z, the range vrt.Time covers.
const maxInternalSec = 315537897599

func init() {
	intrinsics[vrtPkg+".Param"] = func(in *Interp, fr *frame, a []Value) (Value, bool) {
		name := a[0].(string)
		if v, ok := in.prog.Params[name]; ok {
			return mkInt(uint64(int64(v)), 64), true
		}
		return a[1], true
	}
	// Time: wall = 0 (no monotonic reading, zero nanoseconds), ext = seconds
	// since year 1 (symbolic), loc = nil (UTC).
	intrinsics[vrtPkg+".Time"] = func(in *Interp, fr *frame, a []Value) (Value, bool) {
		name := in.freshName(a[0].(string))
		t := in.ctx.Var(name, smt.BV(64))
		in.inputs = append(in.inputs, inputVar{Name: name, Kind: "time", Terms: []*smt.Term{t}, W: 64})
		c := in.ctx
		in.assume(fromTerm(c.And(c.Cmp(smt.OpSLe, c.BVConst(0, 64), t), c.Cmp(smt.OpSLe, t, c.BVConst(maxInternalSec, 64)))))
		return Struct{mkInt(0, 64), SymInt{t}, (*Value)(nil)}, true
	}
}
