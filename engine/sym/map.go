package sym

import (
	"fmt"
	"go/types"
	"strconv"
	"strings"
)

// Map is an insertion-ordered association list with a hash index for
// fully concrete keys. Keys containing symbolic leaves are compared with
// the symbolic equality and the interpreter forks on the outcome.
// Iteration order is insertion order (one of the orders Go permits).
type Map struct {
	keyT  types.Type
	keys  []Value
	vals  []Value
	live  []bool
	index map[string]int
	n     int
	nSym  int // live entries whose key is not fully concrete
}

func newMap(kt types.Type) *Map {
	return &Map{keyT: kt, index: map[string]int{}}
}

func (m *Map) Len() int {
	if m == nil {
		return 0
	}
	return m.n
}

// concreteKey renders a fully concrete key as a canonical string.
func concreteKey(v Value) (string, bool) {
	var sb strings.Builder
	if !writeKey(&sb, v) {
		return "", false
	}
	return sb.String(), true
}

func writeKey(sb *strings.Builder, v Value) bool {
	switch v := v.(type) {
	case bool:
		if v {
			sb.WriteString("T")
		} else {
			sb.WriteString("F")
		}
	case Int:
		sb.WriteString("i")
		sb.WriteString(strconv.FormatUint(v.V, 16))
		sb.WriteString(";")
	case Float:
		fmt.Fprintf(sb, "f%v;", v.V)
	case string:
		sb.WriteString("s")
		sb.WriteString(strconv.Itoa(len(v)))
		sb.WriteString(":")
		sb.WriteString(v)
	case *Value:
		fmt.Fprintf(sb, "p%p;", v)
	case Struct:
		sb.WriteString("{")
		for _, e := range v {
			if !writeKey(sb, e) {
				return false
			}
		}
		sb.WriteString("}")
	case Array:
		sb.WriteString("[")
		for _, e := range v {
			if !writeKey(sb, e) {
				return false
			}
		}
		sb.WriteString("]")
	case Iface:
		if v.T == nil {
			sb.WriteString("nil;")
			return true
		}
		sb.WriteString("I<")
		sb.WriteString(v.T.String())
		sb.WriteString(">")
		return writeKey(sb, v.V)
	default:
		return false
	}
	return true
}

// find returns the slot index of key, or -1. May fork.
func (m *Map) find(in *Interp, key Value) int {
	if m == nil {
		return -1
	}
	ck, conc := concreteKey(key)
	if conc {
		if i, ok := m.index[ck]; ok {
			return i
		}
		if m.nSym == 0 {
			return -1
		}
	}
	for i := range m.keys {
		if !m.live[i] {
			continue
		}
		if conc {
			if _, kc := concreteKey(m.keys[i]); kc {
				continue // concrete vs concrete already settled by the index
			}
		}
		eq := in.equals(m.keyT, key, m.keys[i])
		if in.truth(eq) {
			return i
		}
	}
	return -1
}

func (m *Map) lookup(in *Interp, key Value) (Value, bool) {
	i := m.find(in, key)
	if i < 0 {
		return nil, false
	}
	return m.vals[i], true
}

func (m *Map) insert(in *Interp, key, val Value) {
	if i := m.find(in, key); i >= 0 {
		m.vals[i] = val
		return
	}
	m.keys = append(m.keys, key)
	m.vals = append(m.vals, val)
	m.live = append(m.live, true)
	m.n++
	if ck, ok := concreteKey(key); ok {
		m.index[ck] = len(m.keys) - 1
	} else {
		m.nSym++
	}
}

func (m *Map) delete(in *Interp, key Value) {
	i := m.find(in, key)
	if i < 0 {
		return
	}
	m.live[i] = false
	m.n--
	if ck, ok := concreteKey(m.keys[i]); ok {
		delete(m.index, ck)
	} else {
		m.nSym--
	}
}

type iter interface {
	next(in *Interp) Tuple
}

type mapIter struct {
	m *Map
	i int
}

func (it *mapIter) next(in *Interp) Tuple {
	if it.m != nil {
		for it.i < len(it.m.keys) {
			i := it.i
			it.i++
			if it.m.live[i] {
				return Tuple{true, it.m.keys[i], it.m.vals[i]}
			}
		}
	}
	return Tuple{false, nil, nil}
}
