package sym

import (
	"fmt"
	"strings"

	"golang.org/x/tools/go/ssa"
)

// global returns the cell of a package-level variable, running the
// package's initialiser lazily (per path) on first touch.
func (in *Interp) global(g *ssa.Global) *Value {
	if c, ok := in.globals[g]; ok {
		return c
	}
	pkg := g.Pkg
	if in.pkgInit[pkg] == 0 {
		in.initPackage(pkg)
	}
	c, ok := in.globals[g]
	if !ok {
		// global of a package whose cells were not allocated (should not happen)
		cell := zero(deref(g.Type()))
		c = &cell
		in.globals[g] = c
	}
	return c
}

// initPackage allocates the package's globals and runs its init function
// in tolerant mode: an instruction that cannot be executed yields Poison
// instead of aborting, so that packages whose initialisers touch the
// operating system or the runtime still get their plain-data globals.
// Initialisers of imported packages are not run here; they run lazily when
// one of their own globals is first touched.
func (in *Interp) initPackage(pkg *ssa.Package) {
	in.pkgInit[pkg] = 1
	for _, m := range pkg.Members {
		if g, ok := m.(*ssa.Global); ok {
			cell := zero(deref(g.Type()))
			in.globals[g] = &cell
		}
	}
	if seed := globalSeeds[pkg.Pkg.Path()]; seed != nil {
		seed(in, pkg)
	}
	initFn := pkg.Func("init")
	if initFn == nil || initFn.Blocks == nil {
		in.pkgInit[pkg] = 2
		return
	}
	saveSteps := in.steps
	in.initDepth++
	ok := in.runTolerant(initFn, pkg)
	in.initDepth--
	// initialisation cost is not charged to the path budget
	in.steps = saveSteps
	if ok {
		in.pkgInit[pkg] = 2
	} else {
		in.pkgInit[pkg] = 3
	}
}

// runTolerant executes fn instruction by instruction, replacing failing
// value-producing instructions by Poison. Returns false if control flow
// could not be followed to the end.
func (in *Interp) runTolerant(fn *ssa.Function, pkg *ssa.Package) bool {
	fr := &frame{in: in, fn: fn, tolerant: true}
	fr.env = make(map[ssa.Value]Value)
	fr.block = fn.Blocks[0]
	fr.locals = make([]Value, len(fn.Locals))
	for i, l := range fn.Locals {
		fr.locals[i] = zero(deref(l.Type()))
		fr.env[l] = &fr.locals[i]
	}
	saveDepth := in.depth
	for fr.block != nil {
		nonPhis := executePhis(fr)
		jumped := false
		for _, instr := range nonPhis {
			// skip initialisers of imported packages and the guard logic
			if c, ok := instr.(*ssa.Call); ok {
				if callee := c.Call.StaticCallee(); callee != nil && callee.Name() == "init" && callee.Pkg != pkg && callee.Signature.Recv() == nil {
					continue
				}
			}
			k, err := in.tolerantStep(fr, instr)
			in.depth = saveDepth
			if err != "" {
				if v, ok := instr.(ssa.Value); ok {
					fr.env[v] = Poison{Why: err}
					continue
				}
				switch instr.(type) {
				case *ssa.Store, *ssa.MapUpdate, *ssa.DebugRef:
					// storing a poison / into a poison: mark target if we can
					if st, ok := instr.(*ssa.Store); ok {
						if a, ok := fr.env[st.Addr]; ok {
							if p, ok := a.(*Value); ok && p != nil {
								*p = Poison{Why: err}
							}
						} else if g, ok := st.Addr.(*ssa.Global); ok {
							*in.globals[g] = Poison{Why: err}
						}
					}
					continue
				case *ssa.If, *ssa.Jump, *ssa.Return:
					return false
				default:
					continue
				}
			}
			if k == kReturn {
				return true
			}
			if k == kJump {
				jumped = true
				break
			}
		}
		if !jumped {
			return false
		}
	}
	return true
}

func (in *Interp) tolerantStep(fr *frame, instr ssa.Instruction) (k continuation, err string) {
	defer func() {
		if r := recover(); r != nil {
			if ep, ok := r.(*enginePanic); ok {
				r = ep.cause
			}
			switch p := r.(type) {
			case budgetPanic:
				panic(r)
			case abortPath:
				panic(r)
			case unsupportedPanic:
				err = p.msg
			case targetPanic:
				err = "panic during package initialisation: " + in.panicText(p.v)
			case runtimeError:
				err = p.Error()
			default:
				err = fmt.Sprint(r)
			}
			if len(err) > 200 {
				err = err[:200]
			}
			err = strings.TrimSpace(err)
			if err == "" {
				err = "unknown failure"
			}
		}
	}()
	k = in.visitInstr(fr, instr)
	return k, ""
}

// globalSeeds pre-sets globals whose initialisers cannot run (they are
// applied before the tolerant init, which may overwrite them).
var globalSeeds = map[string]func(in *Interp, pkg *ssa.Package){}
