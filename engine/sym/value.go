// Package sym is a symbolic interpreter for the go/ssa form of Go programs:
// scalar leaves (ints, bools, string bytes, opaque strings) may be SMT terms,
// the heap shape is concrete. Structure and instruction semantics follow
// golang.org/x/tools/go/ssa/interp (BSD licence), which served as reference.
package sym

import (
	"fmt"
	"go/types"
	"strconv"
	"strings"

	"golang.org/x/tools/go/ssa"

	"verif/engine/smt"
)

type Value interface{}

// Int is a concrete integer of W bits; V is zero-extended (masked to W).
// Signedness comes from the static type at each use.
type Int struct {
	V uint64
	W uint8
}

// Float is a concrete floating point number (W = 32 or 64).
type Float struct {
	V float64
	W uint8
}

// SymInt is a symbolic integer; width is T.Sort.W.
type SymInt struct{ T *smt.Term }

// SymBool is a symbolic boolean.
type SymBool struct{ T *smt.Term }

// XStr is an "exploded" string: concrete length, each byte an Int{W:8} or a
// SymInt of width 8. Immutable. An XStr whose bytes are all concrete is
// always normalised to a Go string (see mkXStr).
type XStr struct{ B []Value }

// OStr is an opaque string of unknown length: a (Seq (_ BitVec 8)) term.
type OStr struct{ T *smt.Term }

// OBytes is []byte(opaque string): it can only be passed around and
// converted back to a string.
type OBytes struct{ T *smt.Term }

type Tuple []Value
type Array []Value
type Struct []Value

type Iface struct {
	T types.Type // dynamic type, nil for nil interface
	V Value
}

type Closure struct {
	Fn  *ssa.Function
	Env []Value
}

// Bad is a poison value for dead locals.
type Bad struct{}

// Poison marks a value that could not be computed during tolerant package
// initialisation; using it is an unsupported-operation error.
type Poison struct{ Why string }

// OByteRef is &b[i] for b = []byte(opaque string): it can only be loaded.
type OByteRef struct {
	T   *smt.Term // the sequence
	Idx *smt.Term // 64-bit index, in range on this path
}

// SymElemRef is the result of an IndexAddr with a symbolic index whose only
// uses are loads: the load becomes an if-then-else chain over the elements.
type SymElemRef struct {
	Elems []Value
	Idx   *smt.Term
}

func mask(w uint8) uint64 {
	if w >= 64 {
		return ^uint64(0)
	}
	return (uint64(1) << w) - 1
}

func mkInt(v uint64, w uint8) Int { return Int{V: v & mask(w), W: w} }

func (i Int) Signed() int64 {
	if i.W >= 64 {
		return int64(i.V)
	}
	sh := 64 - uint(i.W)
	return int64(i.V<<sh) >> sh
}

// basicInfo returns width and signedness for an integer-like basic type.
func intInfo(t types.Type) (w uint8, signed bool, ok bool) {
	b, isB := t.Underlying().(*types.Basic)
	if !isB {
		return 0, false, false
	}
	switch b.Kind() {
	case types.Int, types.Int64, types.UntypedInt:
		return 64, true, true
	case types.Int8:
		return 8, true, true
	case types.Int16:
		return 16, true, true
	case types.Int32, types.UntypedRune:
		return 32, true, true
	case types.Uint, types.Uint64, types.Uintptr:
		return 64, false, true
	case types.Uint8:
		return 8, false, true
	case types.Uint16:
		return 16, false, true
	case types.Uint32:
		return 32, false, true
	}
	return 0, false, false
}

func isStringType(t types.Type) bool {
	b, ok := t.Underlying().(*types.Basic)
	return ok && b.Info()&types.IsString != 0
}

func isSymbolic(v Value) bool {
	switch v.(type) {
	case SymInt, SymBool, XStr, OStr:
		return true
	}
	return false
}

// deepSymbolic reports whether v contains any symbolic leaf (bounded depth,
// does not follow pointers).
func deepSymbolic(v Value) bool {
	switch v := v.(type) {
	case SymInt, SymBool, XStr, OStr:
		return true
	case Struct:
		for _, e := range v {
			if deepSymbolic(e) {
				return true
			}
		}
	case Array:
		for _, e := range v {
			if deepSymbolic(e) {
				return true
			}
		}
	case Iface:
		return deepSymbolic(v.V)
	case Tuple:
		for _, e := range v {
			if deepSymbolic(e) {
				return true
			}
		}
	}
	return false
}

// mkXStr builds a string value from bytes, normalising to a Go string when
// every byte is concrete.
func mkXStr(b []Value) Value {
	all := true
	for _, e := range b {
		if _, ok := e.(Int); !ok {
			all = false
			break
		}
	}
	if all {
		bs := make([]byte, len(b))
		for i, e := range b {
			bs[i] = byte(e.(Int).V)
		}
		return string(bs)
	}
	c := make([]Value, len(b))
	copy(c, b)
	return XStr{B: c}
}

// strBytes returns the bytes of a concrete or exploded string.
func strBytes(v Value) ([]Value, bool) {
	switch s := v.(type) {
	case string:
		out := make([]Value, len(s))
		for i := 0; i < len(s); i++ {
			out[i] = Int{V: uint64(s[i]), W: 8}
		}
		return out, true
	case XStr:
		return s.B, true
	}
	return nil, false
}

// zero returns the zero value of type t.
func zero(t types.Type) Value {
	switch t := t.(type) {
	case *types.Basic:
		if t.Kind() == types.UntypedNil {
			panic("untyped nil has no zero value")
		}
		if t.Info()&types.IsUntyped != 0 {
			t = types.Default(t).(*types.Basic)
		}
		switch {
		case t.Kind() == types.Bool:
			return false
		case t.Info()&types.IsInteger != 0:
			w, _, _ := intInfo(t)
			return Int{W: w}
		case t.Kind() == types.Float32:
			return Float{W: 32}
		case t.Kind() == types.Float64:
			return Float{W: 64}
		case t.Kind() == types.String:
			return ""
		case t.Kind() == types.UnsafePointer:
			return (*Value)(nil)
		}
		panic(unsupported("zero value of type " + t.String()))
	case *types.Pointer:
		return (*Value)(nil)
	case *types.Array:
		a := make(Array, t.Len())
		for i := range a {
			a[i] = zero(t.Elem())
		}
		return a
	case *types.Named:
		return zero(t.Underlying())
	case *types.Alias:
		return zero(types.Unalias(t))
	case *types.Interface:
		return Iface{}
	case *types.Slice:
		return []Value(nil)
	case *types.Struct:
		s := make(Struct, t.NumFields())
		for i := range s {
			s[i] = zero(t.Field(i).Type())
		}
		return s
	case *types.Tuple:
		if t.Len() == 1 {
			return zero(t.At(0).Type())
		}
		s := make(Tuple, t.Len())
		for i := range s {
			s[i] = zero(t.At(i).Type())
		}
		return s
	case *types.Chan:
		return (*Chan)(nil)
	case *types.Map:
		return (*Map)(nil)
	case *types.Signature:
		return (*ssa.Function)(nil)
	case *types.TypeParam:
		panic(unsupported("zero of type parameter"))
	}
	panic(fmt.Sprint("zero: unexpected ", t))
}




func deref(t types.Type) types.Type {
	if p, ok := t.Underlying().(*types.Pointer); ok {
		return p.Elem()
	}
	// core type of a type param instance etc.
	if p, ok := types.Unalias(t).(*types.Pointer); ok {
		return p.Elem()
	}
	panic(fmt.Sprintf("deref of non-pointer type %v", t))
}

// load returns a copy of the value of type T stored at addr.
func load(T types.Type, addr *Value) Value {
	if addr == nil {
		panic(runtimeError("invalid memory address or nil pointer dereference"))
	}
	switch T := T.Underlying().(type) {
	case *types.Struct:
		v, ok := (*addr).(Struct)
		if !ok {
			checkPoison(*addr)
			panic(fmt.Sprintf("load: expected struct, got %T", *addr))
		}
		a := make(Struct, len(v))
		for i := range a {
			a[i] = load(T.Field(i).Type(), &v[i])
		}
		return a
	case *types.Array:
		v, ok := (*addr).(Array)
		if !ok {
			checkPoison(*addr)
			panic(fmt.Sprintf("load: expected array, got %T", *addr))
		}
		a := make(Array, len(v))
		for i := range a {
			a[i] = load(T.Elem(), &v[i])
		}
		return a
	default:
		return *addr
	}
}

func checkPoison(v Value) {
	if p, ok := v.(Poison); ok {
		panic(unsupported("use of value that could not be initialised: " + p.Why))
	}
}

// store stores v of type T into *addr, preserving the addresses of fields.
func store(T types.Type, addr *Value, v Value) {
	if addr == nil {
		panic(runtimeError("invalid memory address or nil pointer dereference"))
	}
	if _, isP := v.(Poison); isP {
		*addr = v
		return
	}
	switch T := T.Underlying().(type) {
	case *types.Struct:
		lhs, ok := (*addr).(Struct)
		if !ok {
			// cell was poisoned or uninitialised: replace wholesale
			*addr = copyVal(T, v)
			return
		}
		rhs := v.(Struct)
		for i := range lhs {
			store(T.Field(i).Type(), &lhs[i], rhs[i])
		}
	case *types.Array:
		lhs, ok := (*addr).(Array)
		if !ok {
			*addr = copyVal(T, v)
			return
		}
		rhs := v.(Array)
		for i := range lhs {
			store(T.Elem(), &lhs[i], rhs[i])
		}
	default:
		*addr = v
	}
}

func copyVal(T types.Type, v Value) Value {
	switch T := T.Underlying().(type) {
	case *types.Struct:
		s, ok := v.(Struct)
		if !ok {
			return v
		}
		a := make(Struct, len(s))
		for i := range a {
			a[i] = copyVal(T.Field(i).Type(), s[i])
		}
		return a
	case *types.Array:
		s, ok := v.(Array)
		if !ok {
			return v
		}
		a := make(Array, len(s))
		for i := range a {
			a[i] = copyVal(T.Elem(), s[i])
		}
		return a
	}
	return v
}

// ---------------------------------------------------------------------
// errors raised by the interpreter (as Go panics)

// targetPanic is a panic of the interpreted program.
type targetPanic struct{ v Value }

// runtimeError is a Go run-time error of the interpreted program
// (nil dereference, index out of range, ...). Recoverable by the target.
type runtimeError string

func (e runtimeError) Error() string { return "runtime error: " + string(e) }

// unsupportedPanic aborts the path: the encoder cannot execute something.
type unsupportedPanic struct{ msg string }

func unsupported(msg string) unsupportedPanic { return unsupportedPanic{msg} }

// abortPath ends the current path without a verdict (assume failed etc).
type abortPath struct{ why string }

// ---------------------------------------------------------------------
// debugging output

func toString(v Value) string {
	var b strings.Builder
	writeValue(&b, v, 0)
	return b.String()
}

func writeValue(buf *strings.Builder, v Value, depth int) {
	if depth > 6 {
		buf.WriteString("...")
		return
	}
	switch v := v.(type) {
	case nil:
		buf.WriteString("<nil>")
	case bool:
		fmt.Fprintf(buf, "%v", v)
	case string:
		buf.WriteString(strconv.Quote(v))
	case Int:
		fmt.Fprintf(buf, "%d", v.Signed())
	case Float:
		fmt.Fprintf(buf, "%v", v.V)
	case SymInt:
		fmt.Fprintf(buf, "sym:%s", smt.Print(v.T))
	case SymBool:
		fmt.Fprintf(buf, "sym:%s", smt.Print(v.T))
	case XStr:
		fmt.Fprintf(buf, "xstr[%d]", len(v.B))
	case OStr:
		fmt.Fprintf(buf, "ostr:%s", smt.Print(v.T))
	case *Map:
		fmt.Fprintf(buf, "map[%d]", v.Len())
	case *Value:
		if v == nil {
			buf.WriteString("<nil>")
		} else {
			buf.WriteString("&")
			writeValue(buf, *v, depth+1)
		}
	case Iface:
		if v.T == nil {
			buf.WriteString("nil-iface")
			return
		}
		fmt.Fprintf(buf, "(%s, ", v.T)
		writeValue(buf, v.V, depth+1)
		buf.WriteString(")")
	case Struct:
		buf.WriteString("{")
		for i, e := range v {
			if i > 0 {
				buf.WriteString(" ")
			}
			writeValue(buf, e, depth+1)
		}
		buf.WriteString("}")
	case Array:
		buf.WriteString("[")
		for i, e := range v {
			if i > 0 {
				buf.WriteString(" ")
			}
			writeValue(buf, e, depth+1)
		}
		buf.WriteString("]")
	case []Value:
		buf.WriteString("[")
		for i, e := range v {
			if i > 0 {
				buf.WriteString(" ")
			}
			writeValue(buf, e, depth+1)
		}
		buf.WriteString("]")
	case Tuple:
		buf.WriteString("(")
		for i, e := range v {
			if i > 0 {
				buf.WriteString(", ")
			}
			writeValue(buf, e, depth+1)
		}
		buf.WriteString(")")
	case *ssa.Function:
		if v == nil {
			buf.WriteString("nil-func")
		} else {
			buf.WriteString(v.String())
		}
	case *Closure:
		buf.WriteString("closure:" + v.Fn.String())
	case Poison:
		buf.WriteString("poison(" + v.Why + ")")
	default:
		fmt.Fprintf(buf, "<%T>", v)
	}
}
