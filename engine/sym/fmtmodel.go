package sym

import (
	"fmt"
	"go/token"
	"go/types"
	"strconv"
	"strings"

	"verif/engine/smt"
)

// A model of the fmt verbs the code under test uses (%v %s %d %q %x %T %w
// %c %%, with simple flags on concrete operands). It avoids fmt's
// reflection-driven general path, which the executor cannot run. Strings
// with symbolic content are formatted symbolically; %q on an exploded
// string runs the real strconv.Quote from SSA, on an opaque string it is
// the uninterpreted function fmt_q.

func init() {
	intrinsics["fmt.Sprintf"] = func(in *Interp, fr *frame, a []Value) (Value, bool) {
		s, _ := in.sprintf(fr, a[0], a[1].([]Value))
		return s, true
	}
	intrinsics["fmt.Errorf"] = func(in *Interp, fr *frame, a []Value) (Value, bool) {
		// error texts with symbolic parts are never inspected by a check:
		// %q of a symbolic string stays an uninterpreted term
		in.inErrorf++
		s, wrapped := in.sprintf(fr, a[0], a[1].([]Value))
		in.inErrorf--
		return in.mkFmtError(s, wrapped), true
	}
	intrinsics["fmt.Sprint"] = func(in *Interp, fr *frame, a []Value) (Value, bool) {
		return in.sprint(fr, a[0].([]Value), false), true
	}
	intrinsics["fmt.Sprintln"] = func(in *Interp, fr *frame, a []Value) (Value, bool) {
		return in.sprint(fr, a[0].([]Value), true), true
	}
	intrinsics["fmt.Fprintf"] = func(in *Interp, fr *frame, a []Value) (Value, bool) {
		s, _ := in.sprintf(fr, a[1], a[2].([]Value))
		return in.writeTo(fr, a[0], s), true
	}
	intrinsics["fmt.Fprint"] = func(in *Interp, fr *frame, a []Value) (Value, bool) {
		return in.writeTo(fr, a[0], in.sprint(fr, a[1].([]Value), false)), true
	}
	intrinsics["fmt.Fprintln"] = func(in *Interp, fr *frame, a []Value) (Value, bool) {
		return in.writeTo(fr, a[0], in.sprint(fr, a[1].([]Value), true)), true
	}
}

func (in *Interp) writeTo(fr *frame, w Value, s Value) Value {
	wi := w.(Iface)
	if wi.T == nil {
		panic(runtimeError("nil io.Writer"))
	}
	if m := in.methodOf(wi.T, "WriteString"); m != nil && m.Signature.Params().Len() == 1 {
		return in.call(fr, token.NoPos, m, []Value{wi.V, s})
	}
	m := in.methodOf(wi.T, "Write")
	if m == nil {
		panic("fmt model: writer without Write")
	}
	b, ok := strBytes(s)
	if !ok {
		panic(unsupported("writing an opaque string to a writer without WriteString"))
	}
	bb := make([]Value, len(b))
	copy(bb, b)
	return in.call(fr, token.NoPos, m, []Value{wi.V, bb})
}

func (in *Interp) mkFmtError(msg Value, wrapped []Value) Value {
	fp := in.prog.Pkgs["fmt"]
	switch len(wrapped) {
	case 0:
		return in.newError(msg)
	case 1:
		t := fp.Type("wrapError").Object().Type()
		var cell Value = Struct{msg, wrapped[0]}
		return Iface{T: types.NewPointer(t), V: &cell}
	default:
		t := fp.Type("wrapErrors").Object().Type()
		var cell Value = Struct{msg, append([]Value{}, wrapped...)}
		return Iface{T: types.NewPointer(t), V: &cell}
	}
}

func (in *Interp) sprint(fr *frame, args []Value, ln bool) Value {
	var out Value = ""
	prevString := false
	for i, a := range args {
		ai := a.(Iface)
		isStr := ai.T != nil && isStringType(ai.T) && in.methodOf(ai.T, "String") == nil && in.methodOf(ai.T, "Error") == nil
		if i > 0 && (ln || (!isStr && !prevString)) {
			out = in.strConcat(out, " ")
		}
		out = in.strConcat(out, in.formatArg(fr, 'v', "", ai))
		prevString = isStr
	}
	if ln {
		out = in.strConcat(out, "\n")
	}
	return out
}

func (in *Interp) sprintf(fr *frame, format Value, args []Value) (Value, []Value) {
	f, ok := format.(string)
	if !ok {
		panic(unsupported("symbolic format string"))
	}
	var out Value = ""
	var wrapped []Value
	argi := 0
	lit := 0
	for i := 0; i < len(f); {
		if f[i] != '%' {
			i++
			continue
		}
		out = in.strConcat(out, f[lit:i])
		j := i + 1
		for j < len(f) && strings.IndexByte("+-# 0123456789.", f[j]) >= 0 {
			j++
		}
		if j >= len(f) {
			out = in.strConcat(out, "%!(NOVERB)")
			lit = j
			i = j
			break
		}
		verb := f[j]
		flags := f[i+1 : j]
		i = j + 1
		lit = i
		if verb == '%' {
			out = in.strConcat(out, "%")
			continue
		}
		if argi >= len(args) {
			out = in.strConcat(out, "%!"+string(verb)+"(MISSING)")
			continue
		}
		a := args[argi].(Iface)
		argi++
		if verb == 'w' {
			if a.T != nil && in.methodOf(a.T, "Error") != nil {
				wrapped = append(wrapped, a)
			}
			verb = 'v'
		}
		out = in.strConcat(out, in.formatArg(fr, verb, flags, a))
	}
	out = in.strConcat(out, f[lit:])
	if argi < len(args) {
		out = in.strConcat(out, "%!(EXTRA)")
	}
	return out, wrapped
}

// nonEmptyApp builds an uninterpreted text-codec application and records
// that its result is never the empty string (a quoted string, a decimal
// number and a formatted date all have at least one byte).
func (in *Interp) nonEmptyApp(name string, args ...*smt.Term) OStr {
	t := in.ctx.App(name, smt.SeqSort, args...)
	in.addPC(in.ctx.Not(in.ctx.Eq(t, in.ctx.SeqConst(""))))
	return OStr{t}
}

func (in *Interp) quoteString(fr *frame, s Value) Value {
	switch x := s.(type) {
	case string:
		return strconv.Quote(x)
	case XStr:
		if in.inErrorf > 0 || in.prog.Params["fmt_q_opaque"] == 1 {
			// the check does not depend on the quoted text (error messages)
			return in.nonEmptyApp("fmt_q", in.seqTerm(x))
		}
		fn := in.prog.lookupFunc("strconv", "Quote")
		return in.call(fr, token.NoPos, fn, []Value{x})
	case OStr:
		return in.nonEmptyApp("fmt_q", x.T)
	}
	panic(fmt.Sprintf("quoteString: %T", s))
}

func (in *Interp) formatArg(fr *frame, verb byte, flags string, a Iface) Value {
	if a.T == nil {
		if verb == 'T' {
			return "<nil>"
		}
		if verb == 'v' || verb == 's' {
			if verb == 's' {
				return "%!s(<nil>)"
			}
			return "<nil>"
		}
		return "%!" + string(verb) + "(<nil>)"
	}
	if verb == 'T' {
		return types.TypeString(a.T, nil)
	}
	checkPoison(a.V)
	// error / Stringer
	if verb == 'v' || verb == 's' || verb == 'q' {
		var m = in.methodOf(a.T, "Error")
		if m == nil || m.Signature.Params().Len() != 0 {
			m = in.methodOf(a.T, "String")
			if m != nil && (m.Signature.Params().Len() != 0 || m.Signature.Results().Len() != 1 || !isStringType(m.Signature.Results().At(0).Type())) {
				m = nil
			}
		}
		if m != nil {
			// nil pointer receivers print <nil> like fmt's panic catcher
			if p, ok := a.V.(*Value); ok && p == nil {
				return "<nil>"
			}
			if in.inErrorf > 0 && in.symbolicInside(a, 4) {
				// text of a wrapped error with symbolic content: never
				// inspected, kept as an uninterpreted string
				in.opaqueCount++
				return OStr{in.ctx.Var(fmt.Sprintf("errtext!%d", in.opaqueCount), smt.SeqSort)}
			}
			s := in.call(fr, token.NoPos, m, []Value{a.V})
			if verb == 'q' {
				return in.quoteString(fr, s)
			}
			return s
		}
	}
	ut := a.T.Underlying()
	switch v := a.V.(type) {
	case string, XStr, OStr:
		switch verb {
		case 'v', 's':
			if flags != "" {
				if s, ok := v.(string); ok {
					return fmt.Sprintf("%"+flags+string(verb), s)
				}
			}
			return v
		case 'q':
			return in.quoteString(fr, v)
		case 'x':
			if s, ok := v.(string); ok {
				return fmt.Sprintf("%"+flags+"x", s)
			}
		}
	case bool:
		return fmt.Sprintf("%"+flags+string(verb), v)
	case SymBool:
		if in.truth(v) {
			return "true"
		}
		return "false"
	case Int:
		_, signed, _ := intInfo(ut)
		if signed {
			return fmt.Sprintf("%"+flags+string(verb), v.Signed())
		}
		if v.W == 8 && verb == 'v' {
			return fmt.Sprintf("%"+flags+"v", uint8(v.V))
		}
		return fmt.Sprintf("%"+flags+string(verb), v.V)
	case SymInt:
		w, signed, _ := intInfo(ut)
		_ = w
		base := uint64(10)
		switch verb {
		case 'v', 'd':
		case 'x':
			base = 16
		default:
			panic(unsupported("fmt verb %" + string(verb) + " on a symbolic integer"))
		}
		if flags != "" {
			panic(unsupported("fmt flags on a symbolic integer"))
		}
		if d, ok := in.pcDom[v.T]; !ok || d.hi-d.lo < 0 || d.hi-d.lo > 100000 {
			// unbounded symbolic integer: its decimal text is an
			// uninterpreted function of the value
			return in.nonEmptyApp(fmt.Sprintf("fmt_itoa%d", base), in.ctx.Resize(v.T, 64, signed))
		}
		if signed {
			fn := in.prog.lookupFunc("strconv", "FormatInt")
			return in.call(fr, token.NoPos, fn, []Value{fromTerm(in.ctx.Resize(v.T, 64, true)), mkInt(base, 64)})
		}
		fn := in.prog.lookupFunc("strconv", "FormatUint")
		return in.call(fr, token.NoPos, fn, []Value{fromTerm(in.ctx.Resize(v.T, 64, false)), mkInt(base, 64)})
	case Float:
		return fmt.Sprintf("%"+flags+string(verb), v.V)
	case []Value:
		// []string / []byte with concrete content
		if sl, ok := ut.(*types.Slice); ok {
			if isStringType(sl.Elem()) {
				ss := make([]string, len(v))
				for i, e := range v {
					s, ok := e.(string)
					if !ok {
						panic(unsupported("formatting a slice of symbolic strings"))
					}
					ss[i] = s
				}
				return fmt.Sprintf("%"+flags+string(verb), ss)
			}
			if b, ok := sl.Elem().Underlying().(*types.Basic); ok && b.Kind() == types.Uint8 {
				s := mkXStr(v)
				if verb == 'q' && flags == "" {
					return in.quoteString(fr, s)
				}
				if cs, ok := s.(string); ok {
					return fmt.Sprintf("%"+flags+string(verb), []byte(cs))
				}
				if verb == 's' {
					return s
				}
			}
		}
	case *Value:
		if v == nil {
			return "<nil>"
		}
		return "0xc000000000"
	case Struct:
		// generic {f1 f2} rendering of concrete scalar fields
		if st, ok := ut.(*types.Struct); ok && (verb == 'v') {
			var out Value = "{"
			for i := range v {
				if i > 0 {
					out = in.strConcat(out, " ")
				}
				out = in.strConcat(out, in.formatArg(fr, 'v', "", Iface{T: st.Field(i).Type(), V: v[i]}))
			}
			return in.strConcat(out, "}")
		}
	case Iface:
		return in.formatArg(fr, verb, flags, v)
	}
	panic(unsupported(fmt.Sprintf("fmt model: verb %%%s%c on %v (%T)", flags, verb, a.T, a.V)))
}

// symbolicInside reports whether an error value has symbolic leaves in its
// own fields or (through pointers and interfaces) in what it wraps.
func (in *Interp) symbolicInside(v Value, depth int) bool {
	if depth < 0 {
		return false
	}
	switch x := v.(type) {
	case SymInt, SymBool, XStr, OStr:
		return true
	case Iface:
		return in.symbolicInside(x.V, depth-1)
	case *Value:
		if x == nil {
			return false
		}
		return in.symbolicInside(*x, depth-1)
	case Struct:
		for _, e := range x {
			if in.symbolicInside(e, depth-1) {
				return true
			}
		}
	case []Value:
		for _, e := range x {
			if in.symbolicInside(e, depth-1) {
				return true
			}
		}
	}
	return false
}
