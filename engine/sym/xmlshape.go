package sym

import (
	"go/types"
	"reflect"
	"strings"
)

// vrt.XMLShape(v): the static XML mapping of v's type as encoding/xml
// applies it when marshalling — element and attribute names with their
// namespaces, child order, occurrence — as one string. The native runtime
// computes the same string through reflect; here go/types supplies the
// struct tags of the current source. Harnesses compare it with the shape the
// RFC prescribes (written down independently in the harness), which is what
// justifies the identity wire: client and server of this repository agreeing
// with each other says nothing about agreeing with an RFC-based peer.
//
// One line per element, depth first:
//
//	line    = path " := " item { " " item }
//	path    = name { "/" name }
//	item    = "@" name [ "?" ]                     attribute
//	        | "#text" | "#innerxml" | "#any" occ   character data, raw, wildcard
//	        | name occ [ "^" ]                     child element ("^": recursive type, not expanded again)
//	occ     = "" | "?" | "*"                       exactly one, optional, repeated
//	name    = "{" namespace "}" local              a child without namespace inherits its parent's
func init() {
	intrinsics[vrtPkg+".XMLShape"] = func(in *Interp, fr *frame, a []Value) (Value, bool) {
		v, ok := a[0].(Iface)
		if !ok || v.T == nil {
			return "", true
		}
		return xmlShapeOf(v.T), true
	}
}

func xmlShapeOf(t types.Type) string {
	t = derefType(t)
	st, ok := t.Underlying().(*types.Struct)
	if !ok {
		return "!not-a-struct"
	}
	space, local := xmlNameTag(st)
	if local == "" {
		return "!no-XMLName"
	}
	var lines []string
	xmlStructShape(st, "{"+space+"}"+local, space, []types.Type{t}, &lines)
	return strings.Join(lines, "\n")
}

func derefType(t types.Type) types.Type {
	for {
		p, ok := t.Underlying().(*types.Pointer)
		if !ok {
			return t
		}
		t = p.Elem()
	}
}

func xmlNameTag(st *types.Struct) (space, local string) {
	for i := 0; i < st.NumFields(); i++ {
		if st.Field(i).Name() != "XMLName" {
			continue
		}
		tag := reflect.StructTag(st.Tag(i)).Get("xml")
		name := strings.Split(tag, ",")[0]
		if k := strings.LastIndex(name, " "); k >= 0 {
			return name[:k], name[k+1:]
		}
		return "", name
	}
	return "", ""
}

func hasMethod(t types.Type, names ...string) bool {
	for _, tt := range []types.Type{t, types.NewPointer(t)} {
		ms := types.NewMethodSet(tt)
		for i := 0; i < ms.Len(); i++ {
			for _, n := range names {
				if ms.At(i).Obj().Name() == n {
					return true
				}
			}
		}
	}
	return false
}

func xmlStructShape(st *types.Struct, path string, ownSpace string, stack []types.Type, lines *[]string) {
	var items []string
	type sub struct {
		st    *types.Struct
		path  string
		space string
		t     types.Type
	}
	var subs []sub
	for i := 0; i < st.NumFields(); i++ {
		f := st.Field(i)
		if f.Name() == "XMLName" || !f.Exported() {
			continue
		}
		tag := reflect.StructTag(st.Tag(i)).Get("xml")
		if tag == "-" {
			continue
		}
		parts := strings.Split(tag, ",")
		name := parts[0]
		flags := map[string]bool{}
		for _, p := range parts[1:] {
			flags[p] = true
		}
		space := ""
		if k := strings.LastIndex(name, " "); k >= 0 {
			space, name = name[:k], name[k+1:]
		}
		switch {
		case flags["attr"]:
			if name == "" {
				name = f.Name()
			}
			it := "@{" + space + "}" + name
			// encoding/xml never considers a struct value empty: omitempty
			// omits the attribute only for the other kinds, or when the type
			// decides itself (MarshalXMLAttr may return the zero Attr)
			_, isStructKind := derefType(f.Type()).Underlying().(*types.Struct)
			if (flags["omitempty"] && !isStructKind) || hasMethod(derefType(f.Type()), "MarshalXMLAttr") {
				it += "?"
			}
			items = append(items, it)
			continue
		case flags["chardata"], flags["cdata"]:
			items = append(items, "#text")
			continue
		case flags["innerxml"]:
			items = append(items, "#innerxml")
			continue
		case flags["comment"]:
			items = append(items, "#comment")
			continue
		}
		ft := f.Type()
		occ := ""
		if _, ok := ft.Underlying().(*types.Pointer); ok {
			occ = "?"
			ft = derefType(ft)
		}
		if sl, ok := ft.Underlying().(*types.Slice); ok {
			if b, isB := sl.Elem().Underlying().(*types.Basic); !isB || b.Kind() != types.Uint8 {
				occ = "*"
				ft = derefType(sl.Elem())
			}
		}
		if occ == "" && flags["omitempty"] {
			occ = "?"
		}
		if flags["any"] {
			items = append(items, "#any"+occ)
			continue
		}
		leaf := hasMethod(ft, "MarshalXML", "MarshalText")
		est, isStruct := ft.Underlying().(*types.Struct)
		if isStruct && !leaf {
			// the XMLName of the element's own type wins over the field tag
			if s, l := xmlNameTag(est); l != "" {
				space, name = s, l
			}
		}
		if name == "" {
			name = f.Name()
		}
		if space == "" {
			space = ownSpace
		}
		it := "{" + space + "}" + name + occ
		if isStruct && !leaf && est.NumFields() > 0 {
			rec := false
			for _, s := range stack {
				if types.Identical(s, ft) {
					rec = true
				}
			}
			if rec {
				it += "^"
			} else {
				subs = append(subs, sub{est, path + "/{" + space + "}" + name, space, ft})
			}
		}
		items = append(items, it)
	}
	*lines = append(*lines, path+" := "+strings.Join(items, " "))
	for _, s := range subs {
		xmlStructShape(s.st, s.path, s.space, append(append([]types.Type{}, stack...), s.t), lines)
	}
}
