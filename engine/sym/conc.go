package sym

// Bounded concurrency: goroutines, channels, select, sync.Mutex/Once and the
// sync/atomic word operations, executed under a deterministic cooperative
// scheduler whose choices are decision points of the path exploration (the
// same mechanism as vrt.Choose), so that every interleaving of the *visible*
// operations is a separate symbolic path.
//
// Model
//   * A goroutine of the program under test is a host goroutine; exactly one
//     of them runs at any time (baton passing), so the interpreter state is
//     never accessed concurrently.
//   * Visible operations: channel send / receive / close, select, Mutex.Lock,
//     Once.Do, the sync/atomic functions, vrt.Quiesce. A goroutine runs
//     atomically from one visible operation to the next (sound for programs
//     free of data races; the vector-clock race check below reports the
//     accesses that break this assumption). go statements, Unlock and
//     goroutine exit are left movers and do not yield.
//   * When the running goroutine reaches a visible operation it parks; the
//     scheduler enumerates the enabled transitions (a buffered/closed channel
//     operation, a rendezvous of a sender with a receiver, a free mutex, ...)
//     and forks over them.
//   * No enabled transition while goroutines remain: a goroutine waiting in
//     vrt.Quiesce is told how many others are blocked for ever; otherwise a
//     goroutine blocked inside vrt.Terminates(f) is unwound (Terminates
//     returns false); otherwise the path ends with a "deadlock" finding.
//   * A select with a default branch may take the default even when a
//     rendezvous partner is parked on one of its channels (the partner may not
//     have arrived yet in real time); buffered and closed channels are exact.

import (
	"fmt"
	"go/token"
	"go/types"
	"sort"
	"strings"

	"golang.org/x/tools/go/ssa"
)

type Chan struct {
	id     int
	cap    int
	buf    []Value
	bufVC  [][]int
	closed bool
	vc     []int
}

type opKind int

const (
	opNone opKind = iota
	opYield
	opSend
	opRecv
	opSelect
	opLock
	opOnce
	opQuiesce
	opRLock
	opWLock
)

type selCase struct {
	send bool
	ch   *Chan
	val  Value
}

type pendingOp struct {
	kind       opKind
	ch         *Chan
	val        Value
	cases      []selCase
	hasDefault bool
	mu         *Value
	obj        interface{} // object a yield-type operation is about (closed channel, atomic word)
	readOnly   bool
	where      string
}

type gor struct {
	id      int
	wake    chan struct{}
	exited  chan struct{}
	pending *pendingOp
	done    bool
	parked  bool
	// saved interpreter registers
	depth          int
	inStub         map[string]bool
	inErrorf       int
	lastPanicStack string
	// results of the completed operation
	recvVal   Value
	recvOK    bool
	selIndex  int
	sendPanic bool
	quiesce   int
	unwind    bool
	termDepth int
	vc        []int
	name      string
	seq       int // visible operations completed
}

type killedPanic struct{}
type termUnwind struct{}

type concState struct {
	gors    []*gor
	cur     *gor
	ready   []*gor
	chans   int
	dead    bool
	abort   interface{} // engine-level panic raised in a non-main goroutine
	mutexVC map[*Value][]int
	onceSt  map[*Value]int // 0 idle, 1 running, 2 done
	onceVC  map[*Value][]int
	// race detection
	lastW  map[*Value]access
	lastR  map[*Value][]access
	atomVC map[*Value][]int
	races  []string
	pools  map[*Value][]Value
	rw     map[*Value]*rwState
	sleep  []transition
}

type access struct {
	g       int
	clock   int
	where   string
	harness bool // performed by a function of the harness overlay (zz_verif*)
}

// inHarness: the access is made by harness code (recording backends, model
// file system, stubs), whose own bookkeeping is not library state.
func (in *Interp) inHarness(fr *frame) bool {
	if fr == nil || fr.fn == nil {
		return false
	}
	fn := fr.fn
	for fn.Parent() != nil {
		fn = fn.Parent()
	}
	if v, ok := in.prog.harnessFn.Load(fn); ok {
		return v.(bool)
	}
	f := in.prog.Prog.Fset.Position(fn.Pos()).Filename
	if i := strings.LastIndex(f, "/"); i >= 0 {
		f = f[i+1:]
	}
	v := strings.HasPrefix(f, "zz_verif")
	in.prog.harnessFn.Store(fn, v)
	return v
}

func (in *Interp) concInit() {
	main := &gor{id: 0, wake: make(chan struct{}, 1), exited: make(chan struct{}), name: "main"}
	main.vc = []int{1}
	in.conc = &concState{gors: []*gor{main}, cur: main, mutexVC: map[*Value][]int{}, onceSt: map[*Value]int{}, onceVC: map[*Value][]int{},
		lastW: map[*Value]access{}, lastR: map[*Value][]access{}, atomVC: map[*Value][]int{}, pools: map[*Value][]Value{}}
}

// concShutdown releases every parked host goroutine at the end of a path and
// waits for each of them, one at a time.
func (in *Interp) concShutdown() {
	cs := in.conc
	if cs == nil {
		return
	}
	cs.dead = true
	for _, g := range cs.gors[1:] {
		if g.done {
			<-g.exited
			continue
		}
		g.wake <- struct{}{}
		<-g.exited
	}
	in.conc = nil
}

// ---- vector clocks -------------------------------------------------------

func vcJoin(a, b []int) []int {
	for len(a) < len(b) {
		a = append(a, 0)
	}
	for i, x := range b {
		if x > a[i] {
			a[i] = x
		}
	}
	return a
}

func vcCopy(a []int) []int { return append([]int{}, a...) }

func (g *gor) tick() {
	for len(g.vc) <= g.id {
		g.vc = append(g.vc, 0)
	}
	g.vc[g.id]++
}

func (g *gor) acquire(vc []int) { g.vc = vcJoin(g.vc, vc) }
func (g *gor) release(dst *[]int) {
	*dst = vcJoin(*dst, g.vc)
	g.tick()
}

func (g *gor) sees(a access) bool {
	if a.g == g.id {
		return true
	}
	return a.g < len(g.vc) && g.vc[a.g] >= a.clock
}

// raceRead / raceWrite are called for loads and stores through pointers once
// a second goroutine exists.
func (in *Interp) raceRead(p *Value, fr *frame) {
	cs := in.conc
	if cs == nil || len(cs.gors) < 2 || p == nil || in.raceOff > 0 || in.initDepth > 0 {
		// package initialisation happens before everything else in a real
		// program; here it runs lazily, in whichever goroutine comes first
		return
	}
	g := cs.cur
	hn := in.inHarness(fr)
	if w, ok := cs.lastW[p]; ok && !g.sees(w) && !(hn && w.harness) {
		in.noteRace("read", w, fr)
	}
	rs := cs.lastR[p]
	for i := range rs {
		if rs[i].g == g.id {
			rs[i].clock = g.vc[g.id]
			rs[i].harness = rs[i].harness && hn
			return
		}
	}
	cs.lastR[p] = append(rs, access{g: g.id, clock: g.vc[g.id], where: fr.where(), harness: hn})
}

func (in *Interp) raceWrite(p *Value, fr *frame) {
	cs := in.conc
	if cs == nil || len(cs.gors) < 2 || p == nil || in.raceOff > 0 || in.initDepth > 0 {
		// package initialisation happens before everything else in a real
		// program; here it runs lazily, in whichever goroutine comes first
		return
	}
	g := cs.cur
	hn := in.inHarness(fr)
	if w, ok := cs.lastW[p]; ok && !g.sees(w) && !(hn && w.harness) {
		in.noteRace("write", w, fr)
	}
	for _, r := range cs.lastR[p] {
		if !g.sees(r) && !(hn && r.harness) {
			in.noteRace("write", r, fr)
		}
	}
	delete(cs.lastR, p)
	cs.lastW[p] = access{g: g.id, clock: g.vc[g.id], where: fr.where(), harness: hn}
}

func (in *Interp) noteRace(kind string, prev access, fr *frame) {
	cs := in.conc
	msg := fmt.Sprintf("data race: %s at %s (goroutine %d) unordered with access at %s (goroutine %d)", kind, fr.where(), cs.cur.id, prev.where, prev.g)
	for _, r := range cs.races {
		if r == msg {
			return
		}
	}
	cs.races = append(cs.races, msg)
}

// ---- goroutines ------------------------------------------------------------

func (in *Interp) saveRegs(g *gor) {
	g.depth, g.inStub, g.inErrorf, g.lastPanicStack = in.depth, in.inStub, in.inErrorf, in.lastPanicStack
}

func (in *Interp) loadRegs(g *gor) {
	in.depth, in.inStub, in.inErrorf, in.lastPanicStack = g.depth, g.inStub, g.inErrorf, g.lastPanicStack
}

func (in *Interp) goStmt(fr *frame, fn Value, args []Value, pos token.Pos) {
	if in.conc == nil {
		in.concInit()
	}
	cs := in.conc
	if len(cs.gors) >= 12 {
		panic(budgetPanic{"goroutine budget (12) exceeded"})
	}
	parent := cs.cur
	g := &gor{id: len(cs.gors), wake: make(chan struct{}, 1), exited: make(chan struct{}), inStub: map[string]bool{}}
	g.name = fmt.Sprintf("goroutine %d created at %s", g.id, fr.where())
	// go statement happens before the start of the goroutine
	g.vc = vcCopy(parent.vc)
	for len(g.vc) <= g.id {
		g.vc = append(g.vc, 0)
	}
	g.vc[g.id] = 1
	parent.tick()
	g.pending = &pendingOp{kind: opYield, where: "start"}
	g.parked = true
	cs.gors = append(cs.gors, g)
	go func() {
		defer close(g.exited)
		<-g.wake
		if cs.dead {
			return
		}
		defer func() {
			r := recover()
			g.done = true
			g.pending = nil
			if _, ok := r.(killedPanic); ok || cs.dead {
				return
			}
			if ep, ok := r.(*enginePanic); ok {
				if _, k := ep.cause.(killedPanic); k {
					return
				}
			}
			toMain := func(r interface{}) {
				if isTargetPanic(r) {
					r = &enginePanic{cause: r, stack: in.lastPanicStack}
				}
				cs.abort = r
				main := cs.gors[0]
				cs.cur = main
				in.loadRegs(main)
				main.wake <- struct{}{}
			}
			if r != nil {
				// engine-level abort, or an uncaught panic of the program
				// under test (which takes the whole program down): hand it to
				// the main goroutine.
				toMain(r)
				return
			}
			// normal exit: pass the baton on
			func() {
				defer func() {
					if r2 := recover(); r2 != nil {
						toMain(r2)
					}
				}()
				in.schedule(g, true)
			}()
		}()
		in.call(nil, pos, fn, args)
	}()
}

// park is called by the running goroutine with g.pending set.
func (in *Interp) park(g *gor) {
	in.schedule(g, false)
}

// schedule picks what runs next. exiting: the calling goroutine is finished
// and only hands the baton over.
func (in *Interp) schedule(g *gor, exiting bool) {
	cs := in.conc
	for {
		var target *gor
		if len(cs.ready) > 0 {
			target = cs.ready[0]
			cs.ready = cs.ready[1:]
		} else {
			ts := in.enabled()
			if len(ts) == 0 {
				in.stuck()
				continue
			}
			// sleep sets: a transition that was explored from an earlier
			// state of this path and is independent of everything done
			// since leads only to interleavings already covered there
			var avail []transition
			for i := range ts {
				in.fill(&ts[i])
				asleep := false
				for _, sl := range cs.sleep {
					if sameTransition(sl, ts[i]) {
						asleep = true
						break
					}
				}
				if !asleep {
					avail = append(avail, ts[i])
				}
			}
			if len(avail) == 0 {
				panic(abortPath{"redundant interleaving (sleep set)"})
			}
			k := 0
			if len(avail) > 1 {
				k = in.choose(len(avail))
			}
			taken := avail[k]
			var ns []transition
			for _, sl := range cs.sleep {
				if independent(sl, taken) {
					ns = append(ns, sl)
				}
			}
			for _, e := range avail[:k] {
				if independent(e, taken) {
					ns = append(ns, e)
				}
			}
			cs.sleep = ns
			in.fire(taken)
			continue
		}
		if target == g && !exiting {
			g.parked = false
			if g.unwind {
				g.unwind = false
				panic(termUnwind{})
			}
			return
		}
		if !exiting {
			in.saveRegs(g)
			g.parked = true
		}
		cs.cur = target
		in.loadRegs(target)
		target.parked = false
		target.wake <- struct{}{}
		if exiting {
			return
		}
		<-g.wake
		if cs.dead {
			panic(killedPanic{})
		}
		if g.id == 0 && cs.abort != nil {
			r := cs.abort
			cs.abort = nil
			panic(r)
		}
		g.parked = false
		if g.unwind {
			g.unwind = false
			panic(termUnwind{})
		}
		return
	}
}

type transition struct {
	g     *gor
	ci    int // select case of g, -1 for a plain operation, -2 default
	r     *gor
	cj    int
	label string
	gseq  int
	objs  []touch
}

// footprint: the synchronisation objects a transition depends on (read) or
// changes (write). Every transition of a select reads all of the select's
// channels (a change on any of them can enable or disable its branches); a
// receive on a closed, drained channel and a completed Once only read.
type touch struct {
	obj   interface{}
	write bool
}

func chanTouch(send bool, ch *Chan) touch {
	if !send && ch != nil && ch.closed && len(ch.buf) == 0 {
		return touch{ch, false}
	}
	return touch{ch, true}
}

func (in *Interp) opTouches(p *pendingOp, ci int) []touch {
	var o []touch
	switch p.kind {
	case opSend:
		o = append(o, chanTouch(true, p.ch))
	case opRecv:
		o = append(o, chanTouch(false, p.ch))
	case opSelect:
		for i, c := range p.cases {
			if i == ci {
				o = append(o, chanTouch(c.send, c.ch))
			} else {
				o = append(o, touch{c.ch, false})
			}
		}
	case opLock, opRLock, opWLock:
		o = append(o, touch{p.mu, true})
	case opOnce:
		o = append(o, touch{p.mu, in.conc.onceSt[p.mu] != 2})
	case opYield:
		if p.obj != nil {
			o = append(o, touch{p.obj, !p.readOnly})
		}
	}
	return o
}

func (in *Interp) fill(t *transition) {
	t.gseq = t.g.seq
	t.objs = in.opTouches(t.g.pending, t.ci)
	if t.r != nil {
		t.objs = append(t.objs, in.opTouches(t.r.pending, t.cj)...)
	}
}

func sameTransition(a, b transition) bool {
	return a.g == b.g && a.gseq == b.gseq && a.ci == b.ci && a.r == b.r && a.cj == b.cj
}

// independent: different goroutines and disjoint footprints.
func independent(a, b transition) bool {
	if a.g == b.g || a.g == b.r || (a.r != nil && (a.r == b.g || a.r == b.r)) {
		return false
	}
	for _, x := range a.objs {
		for _, y := range b.objs {
			if x.obj == y.obj && (x.write || y.write) {
				return false
			}
		}
	}
	return true
}

func recvCases(g *gor, ch *Chan) []int {
	p := g.pending
	if p == nil {
		return nil
	}
	switch p.kind {
	case opRecv:
		if p.ch == ch {
			return []int{-1}
		}
	case opSelect:
		var out []int
		for i, c := range p.cases {
			if !c.send && c.ch == ch {
				out = append(out, i)
			}
		}
		return out
	}
	return nil
}

func (in *Interp) enabled() []transition {
	cs := in.conc
	var ts []transition
	sendTs := func(g *gor, ci int, ch *Chan) bool {
		any := false
		if ch == nil {
			return false
		}
		if ch.closed {
			ts = append(ts, transition{g: g, ci: ci})
			return true
		}
		if len(ch.buf) < ch.cap {
			ts = append(ts, transition{g: g, ci: ci})
			return true
		}
		if ch.cap == 0 {
			for _, r := range cs.gors {
				if r == g || r.done {
					continue
				}
				for _, cj := range recvCases(r, ch) {
					ts = append(ts, transition{g: g, ci: ci, r: r, cj: cj})
					any = true
				}
			}
		}
		return any
	}
	recvT := func(g *gor, ci int, ch *Chan) bool {
		if ch == nil {
			return false
		}
		if len(ch.buf) > 0 || ch.closed {
			ts = append(ts, transition{g: g, ci: ci})
			return true
		}
		return false
	}
	hasSender := func(g *gor, ch *Chan) bool {
		if ch == nil || ch.cap != 0 {
			return false
		}
		for _, s := range cs.gors {
			if s == g || s.done || s.pending == nil {
				continue
			}
			switch s.pending.kind {
			case opSend:
				if s.pending.ch == ch {
					return true
				}
			case opSelect:
				for _, c := range s.pending.cases {
					if c.send && c.ch == ch {
						return true
					}
				}
			}
		}
		return false
	}
	for _, g := range cs.gors {
		p := g.pending
		if g.done || p == nil {
			continue
		}
		switch p.kind {
		case opYield:
			ts = append(ts, transition{g: g, ci: -1})
		case opSend:
			sendTs(g, -1, p.ch)
		case opRecv:
			recvT(g, -1, p.ch)
		case opSelect:
			state := false // a case is ready because of channel state alone
			for i, c := range p.cases {
				if c.send {
					before := len(ts)
					if sendTs(g, i, c.ch) && (len(ts) == before+1 && ts[before].r == nil) {
						state = true
					}
				} else {
					if recvT(g, i, c.ch) {
						state = true
					} else if p.hasDefault && hasSender(g, c.ch) {
						// rendezvous from the receiver's side is enumerated
						// with the sender; nothing to add here
					}
				}
			}
			if p.hasDefault && !state {
				ts = append(ts, transition{g: g, ci: -2})
			}
		case opLock:
			if st, _ := (*p.mu).(Struct); len(st) > 0 {
				if i, ok := st[0].(Int); ok && i.V == 0 {
					ts = append(ts, transition{g: g, ci: -1})
				}
			}
		case opOnce:
			if cs.onceSt[p.mu] != 1 {
				ts = append(ts, transition{g: g, ci: -1})
			}
		case opRLock:
			if st := in.rw(p.mu); !st.writer && st.waiting == 0 {
				ts = append(ts, transition{g: g, ci: -1})
			}
		case opWLock:
			if st := in.rw(p.mu); !st.writer && st.readers == 0 {
				ts = append(ts, transition{g: g, ci: -1})
			}
		}
	}
	return ts
}

func (in *Interp) makeReady(g *gor) {
	g.pending = nil
	g.seq++
	in.conc.ready = append(in.conc.ready, g)
}

func (in *Interp) fire(t transition) {
	cs := in.conc
	g := t.g
	p := g.pending
	kind, ch, val := p.kind, p.ch, p.val
	if p.kind == opSelect {
		g.selIndex = t.ci
		if t.ci == -2 {
			g.selIndex = -1
			in.makeReady(g)
			return
		}
		c := p.cases[t.ci]
		ch, val = c.ch, c.val
		if c.send {
			kind = opSend
		} else {
			kind = opRecv
		}
	}
	switch kind {
	case opYield:
		in.makeReady(g)
	case opSend:
		switch {
		case ch.closed:
			g.sendPanic = true
			in.makeReady(g)
		case t.r != nil:
			r := t.r
			// rendezvous: synchronises both ways
			g.acquire(r.vc)
			r.acquire(g.vc)
			g.tick()
			r.tick()
			r.recvVal, r.recvOK = val, true
			if r.pending.kind == opSelect {
				r.selIndex = t.cj
			}
			in.makeReady(g)
			in.makeReady(r)
		default:
			ch.buf = append(ch.buf, val)
			var vc []int
			g.release(&vc)
			ch.bufVC = append(ch.bufVC, vc)
			in.makeReady(g)
		}
	case opRecv:
		if len(ch.buf) > 0 {
			g.recvVal, g.recvOK = ch.buf[0], true
			g.acquire(ch.bufVC[0])
			ch.buf = ch.buf[1:]
			ch.bufVC = ch.bufVC[1:]
		} else {
			g.recvVal, g.recvOK = nil, false // closed: zero value filled in by the caller
			g.acquire(ch.vc)
		}
		in.makeReady(g)
	case opLock:
		st := (*p.mu).(Struct)
		i := st[0].(Int)
		st[0] = mkInt(1, i.W)
		g.acquire(cs.mutexVC[p.mu])
		in.makeReady(g)
	case opOnce:
		g.acquire(cs.onceVC[p.mu])
		in.makeReady(g)
	case opRLock, opWLock:
		in.makeReady(g)
	}
}

// stuck handles a state without enabled transitions.
func (in *Interp) stuck() {
	cs := in.conc
	blocked := 0
	var q *gor
	for _, g := range cs.gors {
		if g.done || g.pending == nil {
			continue
		}
		if g.pending.kind == opQuiesce {
			q = g
		} else {
			blocked++
		}
	}
	if q != nil {
		q.quiesce = blocked
		in.makeReady(q)
		return
	}
	var ts []*gor
	for _, g := range cs.gors {
		if !g.done && g.pending != nil && g.termDepth > 0 {
			ts = append(ts, g)
		}
	}
	if len(ts) > 0 {
		g := ts[0]
		g.unwind = true
		in.makeReady(g)
		return
	}
	// deadlock of the program under test
	var sb strings.Builder
	for _, g := range cs.gors {
		if !g.done && g.pending != nil {
			fmt.Fprintf(&sb, "[%s blocked in %s] ", g.name, g.pending.where)
		}
	}
	panic(deadlockPanic{sb.String()})
}

type deadlockPanic struct{ msg string }

// visible makes the running goroutine park at a visible operation.
func (in *Interp) visible(p *pendingOp) *gor {
	if in.conc == nil {
		in.concInit()
	}
	g := in.conc.cur
	g.pending = p
	in.park(g)
	return g
}

// ---- channel operations --------------------------------------------------

func (in *Interp) makeChan(size Value) *Chan {
	if in.conc == nil {
		in.concInit()
	}
	n := int(asInt64(in.concretize(size, "channel capacity")))
	if n < 0 {
		panic(runtimeError("makechan: size out of range"))
	}
	in.conc.chans++
	return &Chan{id: in.conc.chans, cap: n}
}

func (in *Interp) chanSend(fr *frame, chv, v Value) {
	ch, _ := chv.(*Chan)
	g := in.visible(&pendingOp{kind: opSend, ch: ch, val: v, where: "chan send at " + fr.where()})
	if g.sendPanic {
		g.sendPanic = false
		panic(targetPanic{Iface{T: in.prog.runtimeErrorString, V: "send on closed channel"}})
	}
}

func (in *Interp) chanRecv(fr *frame, chv Value, elem types.Type, commaOk bool) Value {
	ch, _ := chv.(*Chan)
	g := in.visible(&pendingOp{kind: opRecv, ch: ch, where: "chan receive at " + fr.where()})
	v, ok := g.recvVal, g.recvOK
	g.recvVal = nil
	if !ok {
		v = zero(elem)
	}
	if commaOk {
		return Tuple{v, ok}
	}
	return v
}

func (in *Interp) chanClose(fr *frame, chv Value) {
	ch, _ := chv.(*Chan)
	g := in.visible(&pendingOp{kind: opYield, obj: ch, where: "close at " + fr.where()})
	if ch == nil {
		panic(targetPanic{Iface{T: in.prog.runtimeErrorString, V: "close of nil channel"}})
	}
	if ch.closed {
		panic(targetPanic{Iface{T: in.prog.runtimeErrorString, V: "close of closed channel"}})
	}
	ch.closed = true
	g.release(&ch.vc)
}

func (in *Interp) selectStmt(fr *frame, instr *ssa.Select) Value {
	p := &pendingOp{kind: opSelect, hasDefault: !instr.Blocking, where: "select at " + fr.where()}
	for _, st := range instr.States {
		ch, _ := fr.get(st.Chan).(*Chan)
		c := selCase{send: st.Dir == types.SendOnly, ch: ch}
		if c.send {
			c.val = fr.get(st.Send)
		}
		p.cases = append(p.cases, c)
	}
	g := in.visible(p)
	if g.sendPanic {
		g.sendPanic = false
		panic(targetPanic{Iface{T: in.prog.runtimeErrorString, V: "send on closed channel"}})
	}
	idx := g.selIndex
	res := Tuple{mkInt(uint64(int64(idx)), 64), false}
	for i, st := range instr.States {
		if st.Dir == types.RecvOnly {
			elem := st.Chan.Type().Underlying().(*types.Chan).Elem()
			if i == idx {
				v := g.recvVal
				if !g.recvOK {
					v = zero(elem)
				}
				res[1] = g.recvOK
				res = append(res, v)
			} else {
				res = append(res, zero(elem))
			}
		}
	}
	g.recvVal = nil
	return res
}

// ---- sync ---------------------------------------------------------------

func (in *Interp) mutexLock(fr *frame, mu *Value) {
	if in.conc == nil || len(in.conc.gors) < 2 {
		// single goroutine so far: a locked mutex would be a self-deadlock
		if st, _ := (*mu).(Struct); len(st) > 0 {
			if i, ok := st[0].(Int); ok {
				if i.V != 0 {
					in.visible(&pendingOp{kind: opLock, mu: mu, where: "Mutex.Lock at " + fr.where()})
					return
				}
				st[0] = mkInt(1, i.W)
			}
		}
		return
	}
	in.visible(&pendingOp{kind: opLock, mu: mu, where: "Mutex.Lock at " + fr.where()})
}

func (in *Interp) mutexUnlock(fr *frame, mu *Value) {
	st, _ := (*mu).(Struct)
	if len(st) == 0 {
		return
	}
	i, ok := st[0].(Int)
	if !ok {
		return
	}
	if i.V == 0 {
		panic(targetPanic{Iface{T: in.prog.runtimeErrorString, V: "sync: unlock of unlocked mutex"}})
	}
	st[0] = mkInt(0, i.W)
	if in.conc != nil {
		vc := in.conc.mutexVC[mu]
		in.conc.cur.release(&vc)
		in.conc.mutexVC[mu] = vc
	}
}

func (in *Interp) onceDo(fr *frame, o *Value, f Value) {
	if in.conc == nil {
		in.concInit()
	}
	cs := in.conc
	g := cs.cur
	if len(cs.gors) >= 2 {
		in.visible(&pendingOp{kind: opOnce, mu: o, where: "Once.Do at " + fr.where()})
	} else if cs.onceSt[o] == 1 {
		panic(deadlockPanic{"Once.Do called from inside its own function"})
	}
	if cs.onceSt[o] == 2 {
		return
	}
	cs.onceSt[o] = 1
	in.call(fr, token.NoPos, f, nil)
	cs.onceSt[o] = 2
	vc := cs.onceVC[o]
	g = cs.cur
	g.release(&vc)
	cs.onceVC[o] = vc
}

// atomicOp brackets a sync/atomic access: a scheduling point that also
// synchronises through the word.
func (in *Interp) atomicOp(fr *frame, p *Value, write bool) {
	if in.conc == nil || len(in.conc.gors) < 2 {
		return
	}
	g := in.visible(&pendingOp{kind: opYield, obj: p, readOnly: !write, where: "atomic at " + fr.where()})
	cs := in.conc
	g.acquire(cs.atomVC[p])
	if write {
		vc := cs.atomVC[p]
		g.release(&vc)
		cs.atomVC[p] = vc
	}
}

// terminates runs f in the calling goroutine; false if the goroutine would
// be blocked for ever inside f.
func (in *Interp) terminates(fr *frame, f Value) (ok bool) {
	if in.conc == nil {
		in.concInit()
	}
	g := in.conc.cur
	g.termDepth++
	depth, inStub, inErrorf := in.depth, in.inStub, in.inErrorf
	defer func() {
		g.termDepth--
		if r := recover(); r != nil {
			c := r
			if ep, is := r.(*enginePanic); is {
				c = ep.cause
			}
			if _, is := c.(termUnwind); is {
				in.depth, in.inErrorf = depth, inErrorf
				in.inStub = map[string]bool{}
				for k, v := range inStub {
					in.inStub[k] = v
				}
				ok = false
				return
			}
			panic(r)
		}
	}()
	in.call(fr, token.NoPos, f, nil)
	return true
}

func (in *Interp) quiesce(fr *frame) int {
	if in.conc == nil || len(in.conc.gors) < 2 {
		return 0
	}
	g := in.visible(&pendingOp{kind: opQuiesce, where: "vrt.Quiesce"})
	return g.quiesce
}

func init() {
	intrinsics["(*sync.Mutex).Lock"] = func(in *Interp, fr *frame, a []Value) (Value, bool) {
		in.mutexLock(fr, a[0].(*Value))
		return nil, true
	}
	intrinsics["(*sync.Mutex).Unlock"] = func(in *Interp, fr *frame, a []Value) (Value, bool) {
		in.mutexUnlock(fr, a[0].(*Value))
		return nil, true
	}
	intrinsics["(*sync.Once).Do"] = func(in *Interp, fr *frame, a []Value) (Value, bool) {
		in.onceDo(fr, a[0].(*Value), a[1])
		return nil, true
	}
	for _, w := range []string{"Int32", "Uint32", "Int64", "Uint64"} {
		w := w
		intrinsics["sync/atomic.Load"+w] = func(in *Interp, fr *frame, a []Value) (Value, bool) {
			p := a[0].(*Value)
			in.atomicOp(fr, p, false)
			return *p, true
		}
		intrinsics["sync/atomic.Store"+w] = func(in *Interp, fr *frame, a []Value) (Value, bool) {
			p := a[0].(*Value)
			in.atomicOp(fr, p, true)
			*p = a[1]
			return nil, true
		}
		intrinsics["sync/atomic.Add"+w] = func(in *Interp, fr *frame, a []Value) (Value, bool) {
			p := a[0].(*Value)
			in.atomicOp(fr, p, true)
			x, ok1 := (*p).(Int)
			d, ok2 := a[1].(Int)
			if !ok1 || !ok2 {
				panic(unsupported("atomic add of symbolic words"))
			}
			*p = mkInt(x.V+d.V, x.W)
			return *p, true
		}
		intrinsics["sync/atomic.CompareAndSwap"+w] = func(in *Interp, fr *frame, a []Value) (Value, bool) {
			p := a[0].(*Value)
			in.atomicOp(fr, p, true)
			x, ok1 := (*p).(Int)
			o, ok2 := a[1].(Int)
			if !ok1 || !ok2 {
				panic(unsupported("atomic compare-and-swap of symbolic words"))
			}
			if x.V == o.V {
				*p = a[2]
				return true, true
			}
			return false, true
		}
	}
	// sync.Pool: Get hands out the item put back last (the most adversarial
	// of the behaviours the documentation allows), New otherwise; Put/Get
	// synchronise like the real pool.
	intrinsics["(*sync.Pool).Put"] = func(in *Interp, fr *frame, a []Value) (Value, bool) {
		if in.conc == nil {
			in.concInit()
		}
		cs := in.conc
		p := a[0].(*Value)
		if x, ok := a[1].(Iface); ok && x.T == nil {
			return nil, true
		}
		cs.pools[p] = append(cs.pools[p], a[1])
		vc := cs.mutexVC[p]
		cs.cur.release(&vc)
		cs.mutexVC[p] = vc
		return nil, true
	}
	intrinsics["(*sync.Pool).Get"] = func(in *Interp, fr *frame, a []Value) (Value, bool) {
		if in.conc == nil {
			in.concInit()
		}
		cs := in.conc
		p := a[0].(*Value)
		if l := cs.pools[p]; len(l) > 0 {
			x := l[len(l)-1]
			cs.pools[p] = l[:len(l)-1]
			cs.cur.acquire(cs.mutexVC[p])
			return x, true
		}
		st := (*p).(Struct)
		newFn := st[len(st)-1]
		switch f := newFn.(type) {
		case *Closure:
			if f != nil {
				return in.call(fr, token.NoPos, f, nil), true
			}
		case *ssa.Function:
			if f != nil {
				return in.call(fr, token.NoPos, f, nil), true
			}
		}
		return Iface{}, true
	}
	intrinsics[vrtPkg+".Terminates"] = func(in *Interp, fr *frame, a []Value) (Value, bool) {
		return in.terminates(fr, a[0]), true
	}
	intrinsics[vrtPkg+".Quiesce"] = func(in *Interp, fr *frame, a []Value) (Value, bool) {
		return mkInt(uint64(in.quiesce(fr)), 64), true
	}
	intrinsics[vrtPkg+".Event"] = func(in *Interp, fr *frame, a []Value) (Value, bool) {
		in.events = append(in.events, a[0].(string))
		return nil, true
	}
	intrinsics[vrtPkg+".SingleP"] = func(in *Interp, fr *frame, a []Value) (Value, bool) { return nil, true }
	intrinsics[vrtPkg+".GoroutineBaseline"] = func(in *Interp, fr *frame, a []Value) (Value, bool) { return nil, true }
	intrinsics[vrtPkg+".Races"] = func(in *Interp, fr *frame, a []Value) (Value, bool) {
		if in.conc == nil {
			return "", true
		}
		rs := append([]string{}, in.conc.races...)
		sort.Strings(rs)
		return strings.Join(rs, "; "), true
	}
	intrinsics[vrtPkg+".RaceOff"] = func(in *Interp, fr *frame, a []Value) (Value, bool) {
		in.raceOff++
		return nil, true
	}
	intrinsics[vrtPkg+".RaceOn"] = func(in *Interp, fr *frame, a []Value) (Value, bool) {
		in.raceOff--
		return nil, true
	}
}

// sort.Slice / sort.SliceStable reach the slice through reflection; here a
// stable insertion sort swaps the elements of the slice value directly and
// asks the caller's less function (whose answers may be symbolic: the
// comparison forks like any other branch).
func init() {
	sorter := func(in *Interp, fr *frame, a []Value) (Value, bool) {
		ifc, ok := a[0].(Iface)
		if !ok {
			return nil, false
		}
		sl, ok := ifc.V.([]Value)
		if !ok {
			return nil, false
		}
		less := a[1]
		for i := 1; i < len(sl); i++ {
			for j := i; j > 0; j-- {
				r := in.call(fr, token.NoPos, less, []Value{mkInt(uint64(j), 64), mkInt(uint64(j-1), 64)})
				if !in.truth(r) {
					break
				}
				sl[j], sl[j-1] = sl[j-1], sl[j]
			}
		}
		return nil, true
	}
	intrinsics["sort.Slice"] = sorter
	intrinsics["sort.SliceStable"] = sorter
}

// ---- sync.RWMutex ---------------------------------------------------------
// Readers, one writer, and Go's writer preference: a Lock that is waiting
// keeps new readers out (which is what makes recursive read-locking a
// deadlock). Lock is two visible steps: announce, then acquire.

type rwState struct {
	readers int
	writer  bool
	waiting int
	vc      []int
}

func (in *Interp) rw(mu *Value) *rwState {
	if in.conc == nil {
		in.concInit()
	}
	if in.conc.rw == nil {
		in.conc.rw = map[*Value]*rwState{}
	}
	st := in.conc.rw[mu]
	if st == nil {
		st = &rwState{}
		in.conc.rw[mu] = st
	}
	return st
}

func init() {
	intrinsics["(*sync.RWMutex).RLock"] = func(in *Interp, fr *frame, a []Value) (Value, bool) {
		mu := a[0].(*Value)
		st := in.rw(mu)
		g := in.visible(&pendingOp{kind: opRLock, mu: mu, where: "RWMutex.RLock at " + fr.where()})
		st.readers++
		g.acquire(st.vc)
		return nil, true
	}
	intrinsics["(*sync.RWMutex).RUnlock"] = func(in *Interp, fr *frame, a []Value) (Value, bool) {
		mu := a[0].(*Value)
		st := in.rw(mu)
		if st.readers == 0 {
			panic(targetPanic{Iface{T: in.prog.runtimeErrorString, V: "sync: RUnlock of unlocked RWMutex"}})
		}
		st.readers--
		in.conc.cur.release(&st.vc)
		return nil, true
	}
	intrinsics["(*sync.RWMutex).Lock"] = func(in *Interp, fr *frame, a []Value) (Value, bool) {
		mu := a[0].(*Value)
		st := in.rw(mu)
		in.visible(&pendingOp{kind: opYield, obj: mu, where: "RWMutex.Lock (announce) at " + fr.where()})
		st.waiting++
		g := in.visible(&pendingOp{kind: opWLock, mu: mu, where: "RWMutex.Lock at " + fr.where()})
		st.waiting--
		st.writer = true
		g.acquire(st.vc)
		return nil, true
	}
	intrinsics["(*sync.RWMutex).Unlock"] = func(in *Interp, fr *frame, a []Value) (Value, bool) {
		mu := a[0].(*Value)
		st := in.rw(mu)
		if !st.writer {
			panic(targetPanic{Iface{T: in.prog.runtimeErrorString, V: "sync: Unlock of unlocked RWMutex"}})
		}
		st.writer = false
		in.conc.cur.release(&st.vc)
		return nil, true
	}
}
