package sym

import (
	"sync"
	"fmt"
	"go/types"
	"os"
	"path/filepath"
	"strings"

	"golang.org/x/tools/go/packages"
	"golang.org/x/tools/go/ssa"
	"golang.org/x/tools/go/ssa/ssautil"
)

// Program is the SSA form of /repo (with harness overlays) and everything
// it imports, shared read-only by all workers.
type Program struct {
	Prog               *ssa.Program
	Pkgs               map[string]*ssa.Package
	stubs              map[string]*ssa.Function // real function name -> overlay stub
	runtimeErrorString types.Type
	RepoDir            string
	OverlayFiles       []string
	Known              map[string]bool // known-finding ids with status "known"
	Params             map[string]int  // tier parameters readable through vrt.Param
	harnessFn          sync.Map // *ssa.Function -> bool
}

// LoadConfig describes what to load.
type LoadConfig struct {
	RepoDir    string            // e.g. /repo
	Patterns   []string          // packages to load, relative to RepoDir
	Overlay    map[string]string // virtual path -> real file
	BuildTags  []string
	ExtraStubs map[string]string // real function -> "pkgpath.Func" of stub
}

func Load(cfg LoadConfig) (*Program, error) {
	overlay := map[string][]byte{}
	var ofiles []string
	for virt, real := range cfg.Overlay {
		b, err := os.ReadFile(real)
		if err != nil {
			return nil, err
		}
		overlay[virt] = b
		ofiles = append(ofiles, virt)
	}
	pcfg := &packages.Config{
		Mode:       packages.LoadAllSyntax,
		Dir:        cfg.RepoDir,
		Overlay:    overlay,
		BuildFlags: []string{"-tags=" + strings.Join(cfg.BuildTags, ",")},
		Env:        append(os.Environ(), "GOFLAGS=-mod=readonly", "GOPROXY=off", "GOSUMDB=off", "GOTOOLCHAIN=local", "CGO_ENABLED=0"),
	}
	initial, err := packages.Load(pcfg, cfg.Patterns...)
	if err != nil {
		return nil, err
	}
	var errs []string
	packages.Visit(initial, nil, func(p *packages.Package) {
		for _, e := range p.Errors {
			errs = append(errs, e.Error())
		}
	})
	if len(errs) > 0 {
		if len(errs) > 10 {
			errs = errs[:10]
		}
		return nil, fmt.Errorf("load errors:\n%s", strings.Join(errs, "\n"))
	}
	prog, _ := ssautil.AllPackages(initial, ssa.InstantiateGenerics|ssa.SanityCheckFunctions&0)
	prog.Build()
	p := &Program{Prog: prog, Pkgs: map[string]*ssa.Package{}, stubs: map[string]*ssa.Function{}, RepoDir: cfg.RepoDir, OverlayFiles: ofiles}
	for _, sp := range prog.AllPackages() {
		p.Pkgs[sp.Pkg.Path()] = sp
	}
	rt := p.Pkgs["runtime"]
	if rt == nil {
		return nil, fmt.Errorf("runtime package not loaded")
	}
	p.runtimeErrorString = rt.Type("errorString").Object().Type()
	for real, stub := range cfg.ExtraStubs {
		f, err := p.FuncByName(stub)
		if err != nil {
			return nil, fmt.Errorf("stub for %s: %v", real, err)
		}
		p.stubs[real] = f
	}
	return p, nil
}

// FuncByName resolves "pkg/path.Func" to a package-level function.
func (p *Program) FuncByName(name string) (*ssa.Function, error) {
	i := strings.LastIndex(name, ".")
	if i < 0 {
		return nil, fmt.Errorf("bad function name %q", name)
	}
	pkg := p.Pkgs[name[:i]]
	if pkg == nil {
		return nil, fmt.Errorf("package %q not loaded", name[:i])
	}
	f := pkg.Func(name[i+1:])
	if f == nil {
		return nil, fmt.Errorf("function %q not found in %s", name[i+1:], name[:i])
	}
	return f, nil
}

func (p *Program) lookupFunc(pkg, name string) *ssa.Function {
	sp := p.Pkgs[pkg]
	if sp == nil {
		panic(unsupported("package " + pkg + " not loaded"))
	}
	f := sp.Func(name)
	if f == nil {
		panic(unsupported("function " + pkg + "." + name + " not found"))
	}
	return f
}

// HarnessOverlay maps every file of dir (recursively, *.go) to a virtual
// path under repoDir: <dir>/<sub>/<file> -> <repoDir>/<sub>/<file>, where
// the sub-directory "root" stands for the repository root.
func HarnessOverlay(harnessDir, repoDir string) (map[string]string, error) {
	out := map[string]string{}
	err := filepath.Walk(harnessDir, func(path string, info os.FileInfo, err error) error {
		if err != nil {
			return err
		}
		if info.IsDir() || !strings.HasSuffix(path, ".go") {
			return nil
		}
		rel, _ := filepath.Rel(harnessDir, path)
		parts := strings.Split(rel, string(filepath.Separator))
		if parts[0] == "root" {
			parts = parts[1:]
		}
		out[filepath.Join(append([]string{repoDir}, parts...)...)] = path
		return nil
	})
	return out, err
}

// SetStubs replaces the stub table (real function full name -> overlay
// function "pkg/path.Func").
func (p *Program) SetStubs(m map[string]string) error {
	p.stubs = map[string]*ssa.Function{}
	for real, stub := range m {
		f, err := p.FuncByName(stub)
		if err != nil {
			return fmt.Errorf("stub for %s: %v", real, err)
		}
		p.stubs[real] = f
	}
	return nil
}
