package sym

// writeBarrier aborts the path when the program writes into memory that
// the harness froze with vrt.Freeze (inputs that must not be modified).
func (in *Interp) writeBarrier(p *Value) {
	if in.frozen != nil && in.frozen[p] {
		panic(targetPanic{Iface{T: in.prog.runtimeErrorString, V: "verif: write into frozen (input) memory"}})
	}
}

func (in *Interp) writeBarrierMap(m *Map) {
	if in.frozenMap != nil && in.frozenMap[m] {
		panic(targetPanic{Iface{T: in.prog.runtimeErrorString, V: "verif: write into frozen (input) map"}})
	}
}

// KnownActive reports whether id is listed with status "known" in the
// known-findings file given to the run.
func (p *Program) KnownActive(id string) bool { return p.Known[id] }
