package sym

import (
	"fmt"
	"go/token"
	"go/types"
	"runtime"
	"slices"
	"strings"

	"golang.org/x/tools/go/ssa"

	"verif/engine/smt"
)

type continuation int

const (
	kNext continuation = iota
	kReturn
	kJump
)

type deferred struct {
	fn    Value
	args  []Value
	instr *ssa.Defer
	tail  *deferred
}

type frame struct {
	in               *Interp
	caller           *frame
	fn               *ssa.Function
	block, prevBlock *ssa.BasicBlock
	env              map[ssa.Value]Value
	locals           []Value
	defers           *deferred
	result           Value
	panicking        bool
	panic            interface{}
	phitemps         []Value
	tolerant         bool // package initialiser: failing instructions yield Poison
}

func (fr *frame) get(key ssa.Value) Value {
	switch key := key.(type) {
	case nil:
		return nil
	case *ssa.Function, *ssa.Builtin:
		return key
	case *ssa.Const:
		return fr.in.constValue(key)
	case *ssa.Global:
		return fr.in.global(key)
	}
	if r, ok := fr.env[key]; ok {
		return r
	}
	panic(fmt.Sprintf("get: no value for %T: %v", key, key.Name()))
}

func (fr *frame) runDefer(d *deferred) {
	var ok bool
	defer func() {
		if !ok {
			r := recover()
			if !isTargetPanic(r) {
				panic(r) // engine-level abort: propagate untouched
			}
			fr.panicking = true
			fr.panic = r
		}
	}()
	fr.in.call(fr, d.instr.Pos(), d.fn, d.args)
	ok = true
}

func isTargetPanic(r interface{}) bool {
	switch r.(type) {
	case targetPanic, runtimeError:
		return true
	}
	return false
}

func (fr *frame) runDefers() {
	for d := fr.defers; d != nil; d = d.tail {
		fr.runDefer(d)
	}
	fr.defers = nil
	if fr.panicking {
		panic(fr.panic)
	}
}

func (in *Interp) lookupMethod(typ types.Type, meth *types.Func) *ssa.Function {
	return in.prog.Prog.LookupMethod(typ, meth.Pkg(), meth.Name())
}

func (in *Interp) visitInstr(fr *frame, instr ssa.Instruction) continuation {
	in.steps++
	in.curFn = fr.fn
	if in.steps > in.StepBudget {
		panic(budgetPanic{fmt.Sprintf("instruction budget %d exceeded", in.StepBudget)})
	}
	switch instr := instr.(type) {
	case *ssa.DebugRef:

	case *ssa.UnOp:
		in.curFrame = fr
		fr.env[instr] = in.unop(instr, fr.get(instr.X))

	case *ssa.BinOp:
		fr.env[instr] = in.binop(instr.Op, instr.X.Type(), fr.get(instr.X), fr.get(instr.Y))

	case *ssa.Call:
		fn, args := in.prepareCall(fr, &instr.Call)
		fr.env[instr] = in.call(fr, instr.Pos(), fn, args)

	case *ssa.ChangeInterface:
		fr.env[instr] = fr.get(instr.X)

	case *ssa.ChangeType:
		fr.env[instr] = fr.get(instr.X)

	case *ssa.Convert:
		fr.env[instr] = in.conv(instr.Type(), instr.X.Type(), fr.get(instr.X))

	case *ssa.SliceToArrayPointer:
		x := fr.get(instr.X).([]Value)
		arr := deref(instr.Type()).Underlying().(*types.Array)
		if arr.Len() > int64(len(x)) {
			panic(runtimeError("array length is greater than slice length"))
		}
		if x == nil {
			fr.env[instr] = zero(instr.Type())
		} else {
			v := Value(Array(x[:arr.Len()]))
			fr.env[instr] = &v
		}

	case *ssa.MakeInterface:
		v := fr.get(instr.X)
		checkPoison(v)
		fr.env[instr] = Iface{T: instr.X.Type(), V: v}

	case *ssa.Extract:
		t := fr.get(instr.Tuple)
		checkPoison(t)
		fr.env[instr] = t.(Tuple)[instr.Index]

	case *ssa.Slice:
		fr.env[instr] = in.slice(instr, fr.get(instr.X), fr.get(instr.Low), fr.get(instr.High), fr.get(instr.Max))

	case *ssa.Return:
		switch len(instr.Results) {
		case 0:
		case 1:
			fr.result = fr.get(instr.Results[0])
		default:
			var res []Value
			for _, r := range instr.Results {
				res = append(res, fr.get(r))
			}
			fr.result = Tuple(res)
		}
		fr.block = nil
		return kReturn

	case *ssa.RunDefers:
		fr.runDefers()

	case *ssa.Panic:
		panic(targetPanic{fr.get(instr.X)})

	case *ssa.Send:
		in.chanSend(fr, fr.get(instr.Chan), fr.get(instr.X))

	case *ssa.Store:
		addr := fr.get(instr.Addr)
		checkPoison(addr)
		p, ok := addr.(*Value)
		if !ok {
			panic(fmt.Sprintf("store through %T", addr))
		}
		in.writeBarrier(p)
		in.raceWrite(p, fr)
		store(deref(instr.Addr.Type()), p, fr.get(instr.Val))

	case *ssa.If:
		succ := 1
		if in.truth(fr.get(instr.Cond)) {
			succ = 0
		}
		fr.prevBlock, fr.block = fr.block, fr.block.Succs[succ]
		return kJump

	case *ssa.Jump:
		fr.prevBlock, fr.block = fr.block, fr.block.Succs[0]
		return kJump

	case *ssa.Defer:
		fn, args := in.prepareCall(fr, &instr.Call)
		defers := &fr.defers
		if instr.DeferStack != nil {
			if into := fr.get(instr.DeferStack); into != nil {
				defers = into.(**deferred)
			}
		}
		*defers = &deferred{fn: fn, args: args, instr: instr, tail: *defers}

	case *ssa.Go:
		fn, args := in.prepareCall(fr, &instr.Call)
		in.goStmt(fr, fn, args, instr.Pos())

	case *ssa.MakeChan:
		fr.env[instr] = in.makeChan(fr.get(instr.Size))

	case *ssa.Select:
		fr.env[instr] = in.selectStmt(fr, instr)

	case *ssa.Alloc:
		var addr *Value
		if instr.Heap {
			addr = new(Value)
			fr.env[instr] = addr
		} else {
			addr = fr.env[instr].(*Value)
		}
		*addr = zero(deref(instr.Type()))

	case *ssa.MakeSlice:
		c := int(asInt64(in.concretize(fr.get(instr.Cap), "make cap")))
		l := int(asInt64(in.concretize(fr.get(instr.Len), "make len")))
		if l < 0 || c < l {
			panic(runtimeError("makeslice: len out of range"))
		}
		if c > 1<<24 {
			panic(unsupported("makeslice: huge capacity"))
		}
		s := make([]Value, c)
		tElt := instr.Type().Underlying().(*types.Slice).Elem()
		for i := range s {
			s[i] = zero(tElt)
		}
		fr.env[instr] = s[:l]

	case *ssa.MakeMap:
		fr.env[instr] = newMap(instr.Type().Underlying().(*types.Map).Key())

	case *ssa.Range:
		fr.env[instr] = in.rangeIter(fr.get(instr.X))

	case *ssa.Next:
		fr.env[instr] = fr.get(instr.Iter).(iter).next(in)

	case *ssa.FieldAddr:
		x := fr.get(instr.X)
		checkPoison(x)
		p := x.(*Value)
		if p == nil {
			panic(runtimeError("invalid memory address or nil pointer dereference"))
		}
		s, ok := (*p).(Struct)
		if !ok {
			checkPoison(*p)
			panic(fmt.Sprintf("FieldAddr on %T", *p))
		}
		fr.env[instr] = &s[instr.Field]

	case *ssa.Field:
		x := fr.get(instr.X)
		checkPoison(x)
		fr.env[instr] = x.(Struct)[instr.Field]

	case *ssa.IndexAddr:
		x := fr.get(instr.X)
		idx := fr.get(instr.Index)
		checkPoison(x)
		var elems []Value
		if ob, ok := x.(OBytes); ok {
			// element of []byte(opaque string): bounds check through the
			// solver, the element is seq.nth
			it := in.int64Term(idx)
			n := in.ctx.SeqLen64(ob.T)
			in.addPC(in.ctx.Cmp(smt.OpSLe, in.ctx.BVConst(0, 64), n))
			if !in.decide(in.ctx.Cmp(smt.OpULt, it, n)) {
				panic(runtimeError("index out of range"))
			}
			fr.env[instr] = OByteRef{T: ob.T, Idx: it}
			break
		}
		switch x := x.(type) {
		case []Value:
			elems = x
		case *Value:
			if x == nil {
				panic(runtimeError("invalid memory address or nil pointer dereference"))
			}
			elems = (*x).(Array)
		default:
			panic(fmt.Sprintf("unexpected x type in IndexAddr: %T", x))
		}
		if si, ok := idx.(SymInt); ok && onlyLoaded(instr) && scalarElems(elems) {
			inRange := in.inRange(si, instr.Index.Type(), len(elems))
			if !in.decide(inRange) {
				panic(runtimeError("index out of range"))
			}
			fr.env[instr] = SymElemRef{Elems: elems, Idx: si.T}
			break
		}
		i := in.concIndex(idx, len(elems))
		if i < 0 {
			panic(runtimeError(fmt.Sprintf("index out of range with length %d", len(elems))))
		}
		fr.env[instr] = &elems[i]

	case *ssa.Index:
		x := fr.get(instr.X)
		idx := fr.get(instr.Index)
		checkPoison(x)
		switch x := x.(type) {
		case Array:
			if si, ok := idx.(SymInt); ok && scalarElems(x) {
				inRange := in.inRange(si, instr.Index.Type(), len(x))
				if !in.decide(inRange) {
					panic(runtimeError("index out of range"))
				}
				fr.env[instr] = in.selectElem(SymElemRef{Elems: x, Idx: si.T})
				break
			}
			i := in.concIndex(idx, len(x))
			if i < 0 {
				panic(runtimeError("index out of range"))
			}
			fr.env[instr] = x[i]
		case string, XStr:
			fr.env[instr] = in.strIndex(x, idx, instr.Index.Type())
		case OStr:
			panic(unsupported("indexing an opaque string"))
		default:
			panic(fmt.Sprintf("unexpected x type in Index: %T", x))
		}

	case *ssa.Lookup:
		x := fr.get(instr.X)
		checkPoison(x)
		switch m := x.(type) {
		case *Map:
			v, ok := m.lookup(in, fr.get(instr.Index))
			if !ok {
				v = zero(instr.X.Type().Underlying().(*types.Map).Elem())
			}
			if instr.CommaOk {
				fr.env[instr] = Tuple{v, ok}
			} else {
				fr.env[instr] = v
			}
		case string, XStr, OStr:
			fr.env[instr] = in.strIndex(m, fr.get(instr.Index), instr.Index.Type())
		default:
			panic(fmt.Sprintf("unexpected x type in Lookup: %T", x))
		}

	case *ssa.MapUpdate:
		m := fr.get(instr.Map)
		checkPoison(m)
		mm := m.(*Map)
		if mm == nil {
			panic(runtimeError("assignment to entry in nil map"))
		}
		in.writeBarrierMap(mm)
		mt := instr.Map.Type().Underlying().(*types.Map)
		mm.insert(in, fr.get(instr.Key), copyVal(mt.Elem(), fr.get(instr.Value)))

	case *ssa.TypeAssert:
		x := fr.get(instr.X)
		checkPoison(x)
		fr.env[instr] = in.typeAssert(instr, x.(Iface))

	case *ssa.MakeClosure:
		var bindings []Value
		for _, binding := range instr.Bindings {
			bindings = append(bindings, fr.get(binding))
		}
		fr.env[instr] = &Closure{instr.Fn.(*ssa.Function), bindings}

	case *ssa.Phi:
		panic("unreachable: phi")

	default:
		panic(fmt.Sprintf("unexpected instruction: %T", instr))
	}
	return kNext
}

func onlyLoaded(instr *ssa.IndexAddr) bool {
	refs := instr.Referrers()
	if refs == nil || len(*refs) == 0 {
		return false
	}
	for _, r := range *refs {
		u, ok := r.(*ssa.UnOp)
		if !ok || u.Op != token.MUL {
			if _, isDbg := r.(*ssa.DebugRef); isDbg {
				continue
			}
			return false
		}
	}
	return true
}

func scalarElems(elems []Value) bool {
	if len(elems) == 0 {
		return false
	}
	for _, e := range elems {
		switch e.(type) {
		case Int, SymInt:
		default:
			return false
		}
	}
	return true
}

// concretize forks until a symbolic integer has a single value. Only
// used where the shape of memory depends on it; small ranges expected.
func (in *Interp) concretize(v Value, what string) Value {
	si, ok := v.(SymInt)
	if !ok {
		return v
	}
	w := si.T.Sort.W
	for i := 0; i < in.ConcretizeLimit; i++ {
		if in.decide(in.ctx.Eq(si.T, in.ctx.BVConst(uint64(i), w))) {
			return mkInt(uint64(i), uint8(w))
		}
	}
	panic(unsupported("symbolic " + what + " beyond the concretisation limit"))
}

func (in *Interp) slice(instr *ssa.Slice, x, lo, hi, max Value) Value {
	checkPoison(x)
	var Len, Cap int
	switch x := x.(type) {
	case string:
		Len = len(x)
		Cap = Len
	case XStr:
		Len = len(x.B)
		Cap = Len
	case OStr:
		panic(unsupported("slicing an opaque string"))
	case []Value:
		Len = len(x)
		Cap = cap(x)
	case *Value:
		if x == nil {
			panic(runtimeError("invalid memory address or nil pointer dereference"))
		}
		a := (*x).(Array)
		Len = len(a)
		Cap = cap(a)
	default:
		panic(fmt.Sprintf("slice: unexpected X type: %T", x))
	}
	l, h, m := 0, Len, Cap
	if lo != nil {
		l = in.concIndexIncl(lo, Cap)
	}
	if hi != nil {
		h = in.concIndexIncl(hi, Cap)
	}
	if max != nil {
		m = in.concIndexIncl(max, Cap)
	}
	if l < 0 || h < 0 || m < 0 || l > h || h > m || m > Cap {
		panic(runtimeError(fmt.Sprintf("slice bounds out of range [%d:%d:%d] with capacity %d", l, h, m, Cap)))
	}
	switch x := x.(type) {
	case string, XStr:
		if h > Len {
			panic(runtimeError(fmt.Sprintf("slice bounds out of range [:%d] with length %d", h, Len)))
		}
		return in.strSlice(x, l, h)
	case []Value:
		if x == nil {
			return []Value(nil)
		}
		return x[l:h:m]
	case *Value:
		a := (*x).(Array)
		return []Value(a)[l:h:m]
	}
	panic("unreachable")
}

// concIndexIncl concretises a slice bound in [0,n]; -1 when out of range.
func (in *Interp) concIndexIncl(v Value, n int) int {
	return in.concIndex(v, n+1)
}

func (in *Interp) prepareCall(fr *frame, call *ssa.CallCommon) (fn Value, args []Value) {
	v := fr.get(call.Value)
	checkPoison(v)
	if call.Method == nil {
		fn = v
	} else {
		recv, ok := v.(Iface)
		if !ok {
			panic(fmt.Sprintf("method call on %T", v))
		}
		if recv.T == nil {
			panic(runtimeError("invalid memory address or nil pointer dereference (method invoked on nil interface)"))
		}
		f := in.lookupMethod(recv.T, call.Method)
		if f == nil {
			panic(fmt.Sprintf("method set for dynamic type %v does not contain %s", recv.T, call.Method))
		}
		fn = f
		args = append(args, recv.V)
	}
	for _, arg := range call.Args {
		args = append(args, fr.get(arg))
	}
	return
}

func (in *Interp) call(caller *frame, callpos token.Pos, fn Value, args []Value) Value {
	switch fn := fn.(type) {
	case *ssa.Function:
		if fn == nil {
			panic(runtimeError("call of nil function"))
		}
		return in.callSSA(caller, callpos, fn, args, nil)
	case *Closure:
		return in.callSSA(caller, callpos, fn.Fn, args, fn.Env)
	case *ssa.Builtin:
		return in.callBuiltin(caller, callpos, fn, args)
	}
	checkPoison(fn)
	panic(fmt.Sprintf("cannot call %T", fn))
}

type budgetPanic struct{ msg string }

func (in *Interp) callSSA(caller *frame, callpos token.Pos, fn *ssa.Function, args []Value, env []Value) Value {
	in.depth++
	defer func() { in.depth-- }()
	if in.depth > in.DepthBudget {
		panic(budgetPanic{fmt.Sprintf("call depth budget %d exceeded at %s", in.DepthBudget, fn)})
	}
	fr := &frame{in: in, caller: caller, fn: fn}
	if fn.Parent() == nil {
		name := fn.String()
		if fn.Origin() != nil {
			name = fn.Origin().String()
		}
		if stub := in.prog.stubs[name]; stub != nil && !in.inStub[name] {
			in.noteStub(name)
			in.inStub[name] = true
			defer func() { delete(in.inStub, name) }()
			return in.callSSA(caller, callpos, stub, args, nil)
		}
		if ext := intrinsics[name]; ext != nil {
			if r, handled := ext(in, fr, args); handled {
				in.noteIntrinsic(name)
				return r
			}
		}
		if fn.Blocks == nil {
			panic(unsupported("no Go body for function " + name))
		}
	}
	if fn.TypeParams().Len() > 0 && len(fn.TypeArgs()) == 0 {
		panic(unsupported("uninstantiated generic function " + fn.String()))
	}
	in.noteFunc(fn)
	fr.env = make(map[ssa.Value]Value)
	fr.block = fn.Blocks[0]
	fr.locals = make([]Value, len(fn.Locals))
	for i, l := range fn.Locals {
		fr.locals[i] = zero(deref(l.Type()))
		fr.env[l] = &fr.locals[i]
	}
	for i, p := range fn.Params {
		fr.env[p] = args[i]
	}
	for i, fv := range fn.FreeVars {
		fr.env[fv] = env[i]
	}
	for fr.block != nil {
		in.runFrame(fr)
	}
	return fr.result
}

func (in *Interp) runFrame(fr *frame) {
	defer func() {
		if fr.block == nil {
			return // normal return
		}
		r := recover()
		if isTargetPanic(r) && in.lastPanicStack == "" {
			in.lastPanicStack = stackOf(fr)
		}
		if !isTargetPanic(r) {
			// engine-level abort: annotate once with the frame stack
			if _, ok := r.(*enginePanic); !ok {
				r = &enginePanic{cause: r, stack: stackOf(fr)}
			}
			panic(r)
		}
		fr.panicking = true
		fr.panic = r
		fr.runDefers()
		fr.block = fr.fn.Recover
	}()
	for {
		nonPhis := executePhis(fr)
		for _, instr := range nonPhis {
			if in.visitInstr(fr, instr) == kReturn {
				return
			}
		}
	}
}

func executePhis(fr *frame) []ssa.Instruction {
	firstNonPhi := -1
	for i, instr := range fr.block.Instrs {
		if _, ok := instr.(*ssa.Phi); !ok {
			firstNonPhi = i
			break
		}
	}
	nonPhis := fr.block.Instrs[firstNonPhi:]
	if firstNonPhi > 0 {
		phis := fr.block.Instrs[:firstNonPhi]
		predIndex := slices.Index(fr.block.Preds, fr.prevBlock)
		fr.phitemps = fr.phitemps[:0]
		for _, phi := range phis {
			phi := phi.(*ssa.Phi)
			fr.phitemps = append(fr.phitemps, fr.get(phi.Edges[predIndex]))
		}
		for i, phi := range phis {
			fr.env[phi.(*ssa.Phi)] = fr.phitemps[i]
		}
	}
	return nonPhis
}

func (in *Interp) doRecover(caller *frame) Value {
	if caller != nil && !caller.panicking &&
		caller.caller != nil && caller.caller.panicking {
		caller.caller.panicking = false
		p := caller.caller.panic
		caller.caller.panic = nil
		in.lastPanicStack = ""
		switch p := p.(type) {
		case targetPanic:
			return p.v
		case runtimeError:
			return Iface{T: in.prog.runtimeErrorString, V: p.Error()}
		default:
			panic(fmt.Sprintf("unexpected panic type %T in target call to recover()", p))
		}
	}
	return Iface{}
}

func (in *Interp) callBuiltin(caller *frame, callpos token.Pos, fn *ssa.Builtin, args []Value) Value {
	for _, a := range args {
		checkPoison(a)
	}
	switch fn.Name() {
	case "append":
		if len(args) == 1 {
			return args[0]
		}
		arg0 := args[0].([]Value)
		switch s := args[1].(type) {
		case string, XStr:
			b, _ := strBytes(s)
			return append(arg0, b...)
		case OStr:
			panic(unsupported("append([]byte, opaque string...)"))
		}
		// copy struct/array elements to keep value semantics
		src := args[1].([]Value)
		et := fn.Type().(*types.Signature).Params().At(0).Type().Underlying().(*types.Slice).Elem()
		if in.conc != nil && len(in.conc.gors) > 1 {
			for i := range src {
				in.raceRead(&src[i], caller)
			}
			if l := len(arg0); cap(arg0)-l >= len(src) {
				spare := arg0[:l+len(src)]
				for i := range src {
					in.raceWrite(&spare[l+i], caller)
				}
			}
		}
		for _, e := range src {
			arg0 = append(arg0, copyVal(et, e))
		}
		return arg0

	case "copy":
		dst := args[0].([]Value)
		var src []Value
		switch s := args[1].(type) {
		case string, XStr:
			src, _ = strBytes(s)
		case OStr:
			panic(unsupported("copy([]byte, opaque string)"))
		case []Value:
			src = s
		}
		et := fn.Type().(*types.Signature).Params().At(0).Type().Underlying().(*types.Slice).Elem()
		n := len(dst)
		if len(src) < n {
			n = len(src)
		}
		// handle overlap like the built-in: copy via temporary
		tmp := make([]Value, n)
		_, fromSlice := args[1].([]Value)
		for i := 0; i < n; i++ {
			if fromSlice {
				in.raceRead(&src[i], caller)
			}
			tmp[i] = copyVal(et, src[i])
		}
		for i := 0; i < n; i++ {
			in.writeBarrier(&dst[i])
			in.raceWrite(&dst[i], caller)
			dst[i] = tmp[i]
		}
		return mkInt(uint64(n), 64)

	case "close":
		in.chanClose(caller, args[0])
		return nil

	case "delete":
		m := args[0].(*Map)
		if m != nil {
			in.writeBarrierMap(m)
			m.delete(in, args[1])
		}
		return nil

	case "clear":
		switch x := args[0].(type) {
		case *Map:
			if x != nil {
				in.writeBarrierMap(x)
				*x = *newMap(x.keyT)
			}
		case []Value:
			et := fn.Type().(*types.Signature).Params().At(0).Type().Underlying().(*types.Slice).Elem()
			for i := range x {
				x[i] = zero(et)
			}
		}
		return nil

	case "print", "println":
		return nil

	case "len":
		switch x := args[0].(type) {
		case string, XStr, OStr:
			return in.strLen(x)
		case OBytes:
			return in.strLen(OStr{x.T})
		case Array:
			return mkInt(uint64(len(x)), 64)
		case *Value:
			if x == nil {
				// len of nil *array is the array length; take it from the type
				at := deref(fn.Type().(*types.Signature).Params().At(0).Type()).Underlying().(*types.Array)
				return mkInt(uint64(at.Len()), 64)
			}
			return mkInt(uint64(len((*x).(Array))), 64)
		case []Value:
			return mkInt(uint64(len(x)), 64)
		case *Map:
			return mkInt(uint64(x.Len()), 64)
		case *Chan:
			if x == nil {
				return mkInt(0, 64)
			}
			return mkInt(uint64(len(x.buf)), 64)
		default:
			panic(fmt.Sprintf("len: illegal operand: %T", x))
		}

	case "cap":
		switch x := args[0].(type) {
		case Array:
			return mkInt(uint64(cap(x)), 64)
		case *Value:
			return mkInt(uint64(cap((*x).(Array))), 64)
		case []Value:
			return mkInt(uint64(cap(x)), 64)
		default:
			panic(fmt.Sprintf("cap: illegal operand: %T", x))
		}

	case "min", "max":
		t := fn.Type().(*types.Signature).Params().At(0).Type()
		x := args[0]
		for _, a := range args[1:] {
			var lt Value
			if fn.Name() == "min" {
				lt = in.binop(token.LSS, t, a, x)
			} else {
				lt = in.binop(token.GTR, t, a, x)
			}
			if in.truth(lt) {
				x = a
			}
		}
		return x

	case "panic":
		panic(targetPanic{args[0]})

	case "recover":
		return in.doRecover(caller)

	case "ssa:wrapnilchk":
		recv := args[0]
		if recv.(*Value) == nil {
			panic(runtimeError(fmt.Sprintf("value method (%s).%s called using nil *%s pointer", toString(args[1]), toString(args[2]), toString(args[1]))))
		}
		return recv

	case "ssa:deferstack":
		return &caller.defers
	}
	panic(unsupported("built-in " + fn.Name()))
}

type stringIter struct {
	b []Value
	i int
}

func (it *stringIter) next(in *Interp) Tuple {
	if it.i >= len(it.b) {
		return Tuple{false, nil, nil}
	}
	r, size := in.decodeRuneAt(it.b[it.i:])
	idx := it.i
	it.i += size
	return Tuple{true, mkInt(uint64(idx), 64), r}
}

func (in *Interp) rangeIter(x Value) iter {
	checkPoison(x)
	switch x := x.(type) {
	case *Map:
		return &mapIter{m: x}
	case string, XStr:
		b, _ := strBytes(x)
		return &stringIter{b: b}
	case OStr:
		panic(unsupported("range over an opaque string"))
	}
	panic(fmt.Sprintf("cannot range over %T", x))
}

// truth turns a (possibly symbolic) boolean into a control-flow decision.
func (in *Interp) truth(v Value) bool {
	switch v := v.(type) {
	case bool:
		return v
	case SymBool:
		return in.decide(v.T)
	}
	checkPoison(v)
	panic(fmt.Sprintf("truth: not a bool: %T", v))
}

// callerName is used in diagnostics.
func (fr *frame) where() string {
	if fr == nil || fr.fn == nil {
		return "?"
	}
	return fr.fn.String()
}

func stackOf(fr *frame) string {
	var parts []string
	for f := fr; f != nil && len(parts) < 12; f = f.caller {
		parts = append(parts, f.fn.String())
	}
	return strings.Join(parts, " <- ")
}

var _ = runtime.GOOS

// inRange builds 0 <= idx < n for an index of the given static type,
// computed in 64 bits so that n >= 2^width cannot wrap.
func (in *Interp) inRange(idx SymInt, t types.Type, n int) *smt.Term {
	_, signed, ok := intInfo(t)
	if !ok {
		signed = true
	}
	c := in.ctx
	ext := c.Resize(idx.T, 64, signed)
	return c.Cmp(smt.OpULt, ext, c.BVConst(uint64(n), 64))
}
