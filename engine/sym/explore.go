package sym

import (
	"fmt"
	"go/token"
	"hash/fnv"
	"io"
	"os"
	"sort"
	"strings"
	"sync"
	"time"

	"golang.org/x/tools/go/ssa"

	"verif/engine/smt"
)

// Interp is one worker: an interpreter plus its solver connection. The
// per-path state is reset by runPath.
type Interp struct {
	prog    *Program
	ctx     *smt.Ctx
	solver  *smt.Solver
	solver2 *smt.Solver // cross-check solver (may be nil)
	qcount  int

	// budgets
	CrossEvery      int
	StepBudget      int
	DepthBudget     int
	ForkBudget      int
	ConcretizeLimit int

	// per-path state
	globals        map[*ssa.Global]*Value
	pkgInit        map[*ssa.Package]int // 0 none, 1 running, 2 done, 3 partial
	steps          int
	depth          int
	prefix         []int
	taken          []int
	pc             []*smt.Term
	pcSet          map[*smt.Term]bool
	pcVal          map[*smt.Term]*smt.Term
	pcDom          map[*smt.Term]*domain
	pcFalse        bool
	forks          [][]int
	inputs         []inputVar
	nameCount      map[string]int
	inStub         map[string]bool
	findings       []Finding
	asserts        int
	symAssert      int
	reached        map[string]bool
	observed       []string
	labels         map[string]Value // intrinsic side tables (e.g. time labels)
	frozen         map[*Value]bool
	frozenMap      map[*Map]bool
	curFn          *ssa.Function
	lastPanicStack string
	inErrorf       int
	opaqueCount    int
	conc           *concState
	curFrame       *frame
	events         []string
	raceOff        int

	// accumulated over all paths of this worker
	stats     *Stats
	lfuncs    map[*ssa.Function]int
	lintr     map[string]int
	lstubs    map[string]int
	initDepth int
}

type inputVar struct {
	Name  string
	Kind  string // bool, int, str, strn, time, choose
	Terms []*smt.Term
	W     int
}

// Finding is a failed obligation on one path.
type Finding struct {
	Kind      string // assert, panic
	Msg       string
	KnownID   string // non-empty: inside the region of that known finding
	Decisions []int
	Model     map[string]interface{}
	Stack     string
	Observed  []string
}

type Stats struct {
	mu           sync.Mutex
	Paths        int
	Completed    int
	Pruned       int
	Decisions    int
	Asserts      int
	SymAsserts   int
	Discharged   int
	Funcs        map[string]int // function -> instructions
	Intrinsics   map[string]int
	Stubs        map[string]int
	Inconcl      []string
	Findings     []Finding
	FindingCount map[string]int
	Witnesses    map[string]int // reach label -> count
	WitnessMods  []map[string]interface{}
	witnessKept  map[string][]keptWitness
	findingKept  map[string][]Finding
	FeasQ        int
	OblQ         int
	CrossQ       int
	CrossAgree   int
	SolverTime   time.Duration
	Samples      []PathSample
	MaxSteps     int
}

type PathSample struct {
	Decisions []int    `json:"decisions"`
	Outcome   string   `json:"outcome"`
	Steps     int      `json:"steps"`
	Asserts   int      `json:"asserts"`
	Observed  []string `json:"observed,omitempty"`
}

func NewStats() *Stats {
	return &Stats{findingKept: map[string][]Finding{}, witnessKept: map[string][]keptWitness{}, FindingCount: map[string]int{}, Funcs: map[string]int{}, Intrinsics: map[string]int{}, Stubs: map[string]int{}, Witnesses: map[string]int{}}
}

func (in *Interp) noteFunc(fn *ssa.Function) {
	if in.initDepth > 0 {
		return
	}
	if _, ok := in.lfuncs[fn]; ok {
		return
	}
	c := 0
	for _, b := range fn.Blocks {
		c += len(b.Instrs)
	}
	in.lfuncs[fn] = c
}

func (in *Interp) noteIntrinsic(n string) { in.lintr[n]++ }

func (in *Interp) noteStub(n string) { in.lstubs[n]++ }

func (in *Interp) mergeLocalStats() {
	in.stats.mu.Lock()
	for f, c := range in.lfuncs {
		in.stats.Funcs[f.String()] = c
	}
	for n, c := range in.lintr {
		in.stats.Intrinsics[n] += c
	}
	for n, c := range in.lstubs {
		in.stats.Stubs[n] += c
	}
	in.stats.mu.Unlock()
}

// decide resolves a symbolic condition into a branch decision, replaying
// the prefix or asking the solver which sides are feasible.
func (in *Interp) decide(cond *smt.Term) bool {
	switch cond.Op {
	case smt.OpTrue:
		return true
	case smt.OpFalse:
		return false
	}
	pos := len(in.taken)
	if pos < len(in.prefix) {
		d := in.prefix[pos]
		in.take(d, cond)
		return d == 1
	}
	// syntactic shortcuts: the condition (or its negation) is already a
	// conjunct of the path condition, or contradicts a known equality
	if v, ok := in.syntactic(cond); ok {
		in.take(b2i(v), cond)
		return v
	}
	if len(in.taken) >= in.ForkBudget {
		panic(budgetPanic{fmt.Sprintf("fork-depth budget %d exceeded", in.ForkBudget)})
	}
	// which sides are feasible?
	tFeas := in.feasible(cond)
	if !tFeas {
		in.take(0, cond)
		return false
	}
	fFeas := in.feasible(in.ctx.Not(cond))
	if !fFeas {
		in.take(1, cond)
		return true
	}
	// both: take true now, queue false
	alt := append(append([]int{}, in.taken...), 0)
	in.forks = append(in.forks, alt)
	in.take(1, cond)
	return true
}

func (in *Interp) take(d int, cond *smt.Term) {
	in.taken = append(in.taken, d)
	if d == 1 {
		in.addPC(cond)
	} else {
		in.addPC(in.ctx.Not(cond))
	}
}

func b2i(b bool) int {
	if b {
		return 1
	}
	return 0
}

// addPC appends a conjunct to the path condition and indexes it for the
// syntactic shortcuts.
func (in *Interp) addPC(t *smt.Term) {
	if in.pcSet[t] {
		return
	}
	in.pc = append(in.pc, t)
	in.pcSet[t] = true
	switch t.Op {
	case smt.OpAnd:
		for _, a := range t.Args {
			in.indexFact(a)
		}
	default:
		in.indexFact(t)
	}
}

func (in *Interp) indexFact(t *smt.Term) {
	in.pcSet[t] = true
	switch t.Op {
	case smt.OpEq:
		a, b := t.Args[0], t.Args[1]
		if b.IsConst() && !a.IsConst() {
			in.pcVal[a] = b
		} else if a.IsConst() && !b.IsConst() {
			in.pcVal[b] = a
		}
	case smt.OpNot:
		e := t.Args[0]
		switch e.Op {
		case smt.OpEq:
			a, b := e.Args[0], e.Args[1]
			if a.Op == smt.OpBVConst {
				a, b = b, a
			}
			if b.Op == smt.OpBVConst && a.Op != smt.OpBVConst {
				d := in.dom(a)
				d.excl[sextW(b.Val, b.Sort.W)] = true
			}
		case smt.OpSLe: // not (a <= b)  ==  b < a
			in.boundFact(e.Args[1], e.Args[0], true)
		case smt.OpSLt: // not (a < b)  ==  b <= a
			in.boundFact(e.Args[1], e.Args[0], false)
		}
	case smt.OpSLe:
		in.boundFact(t.Args[0], t.Args[1], false)
	case smt.OpSLt:
		in.boundFact(t.Args[0], t.Args[1], true)
	}
}

// a small signed-interval domain per term, fed by the comparisons with
// constants that enter the path condition; it answers the many forced
// decisions on small-range inputs (node kinds, content ids) without a
// solver call. Every inference is a sound consequence of the path condition.
type domain struct {
	lo, hi int64
	excl   map[int64]bool
}

func sextW(v uint64, w int) int64 {
	if w >= 64 {
		return int64(v)
	}
	sh := uint(64 - w)
	return int64(v<<sh) >> sh
}

func (in *Interp) dom(t *smt.Term) *domain {
	d, ok := in.pcDom[t]
	if !ok {
		w := t.Sort.W
		d = &domain{lo: -(1 << 62) * 2, hi: 1<<63 - 1, excl: map[int64]bool{}}
		if w < 64 {
			d.lo = -(int64(1) << uint(w-1))
			d.hi = int64(1)<<uint(w-1) - 1
		}
		in.pcDom[t] = d
	}
	return d
}

// boundFact records a <s b (strict) or a <=s b where one side is constant.
func (in *Interp) boundFact(a, b *smt.Term, strict bool) {
	switch {
	case a.Op == smt.OpBVConst && b.Op != smt.OpBVConst:
		c := sextW(a.Val, a.Sort.W)
		if strict {
			if c == 1<<63-1 {
				return
			}
			c++
		}
		d := in.dom(b)
		if c > d.lo {
			d.lo = c
		}
	case b.Op == smt.OpBVConst && a.Op != smt.OpBVConst:
		c := sextW(b.Val, b.Sort.W)
		if strict {
			if c == -(1<<62)*2 {
				return
			}
			c--
		}
		d := in.dom(a)
		if c < d.hi {
			d.hi = c
		}
	}
}

// domDecide evaluates x == c, x <s c, x <=s c, c <s x, c <=s x from the domain.
func (in *Interp) domEq(x *smt.Term, c int64) (bool, bool) {
	d, ok := in.pcDom[x]
	if !ok {
		return false, false
	}
	if c < d.lo || c > d.hi || d.excl[c] {
		return false, true
	}
	if d.hi-d.lo >= 0 && d.hi-d.lo <= 16 {
		// single remaining value?
		remaining := 0
		var last int64
		for v := d.lo; v <= d.hi; v++ {
			if !d.excl[v] {
				remaining++
				last = v
			}
		}
		if remaining == 1 && last == c {
			return true, true
		}
	}
	return false, false
}

func (in *Interp) domCmp(a, b *smt.Term, strict bool) (bool, bool) {
	// a <s b or a <=s b
	if a.Op == smt.OpBVConst && b.Op != smt.OpBVConst {
		d, ok := in.pcDom[b]
		if !ok {
			return false, false
		}
		c := sextW(a.Val, a.Sort.W)
		if strict {
			if c < d.lo {
				return true, true
			}
			if c >= d.hi {
				return false, true
			}
		} else {
			if c <= d.lo {
				return true, true
			}
			if c > d.hi {
				return false, true
			}
		}
	}
	if b.Op == smt.OpBVConst && a.Op != smt.OpBVConst {
		d, ok := in.pcDom[a]
		if !ok {
			return false, false
		}
		c := sextW(b.Val, b.Sort.W)
		if strict {
			if d.hi < c {
				return true, true
			}
			if d.lo >= c {
				return false, true
			}
		} else {
			if d.hi <= c {
				return true, true
			}
			if d.lo > c {
				return false, true
			}
		}
	}
	return false, false
}

// syntactic decides cond from facts already in the path condition.
func (in *Interp) syntactic(cond *smt.Term) (bool, bool) {
	if in.pcSet[cond] {
		return true, true
	}
	if in.pcSet[in.ctx.Not(cond)] {
		return false, true
	}
	neg := false
	t := cond
	if t.Op == smt.OpNot {
		neg = true
		t = t.Args[0]
	}
	switch t.Op {
	case smt.OpEq:
		a, b := t.Args[0], t.Args[1]
		if a.IsConst() {
			a, b = b, a
		}
		if b.IsConst() {
			if v, ok := in.pcVal[a]; ok {
				return (v == b) != neg, true
			}
			if b.Op == smt.OpBVConst && a.Op != smt.OpBVConst {
				if v, ok := in.domEq(a, sextW(b.Val, b.Sort.W)); ok {
					return v != neg, true
				}
			}
		}
	case smt.OpSLe:
		if v, ok := in.domCmp(t.Args[0], t.Args[1], false); ok {
			return v != neg, true
		}
	case smt.OpSLt:
		if v, ok := in.domCmp(t.Args[0], t.Args[1], true); ok {
			return v != neg, true
		}
	}
	return false, false
}

// feasible reports whether pc ∧ cond is satisfiable (unknown counts as yes).
var ProfileQueries = map[string]int{}
var profMu sync.Mutex
var Profile bool

func (in *Interp) feasible(cond *smt.Term) bool {
	if Profile && in.curFn != nil {
		profMu.Lock()
		ProfileQueries[in.curFn.String()+" :: "+smt.Print(cond)[:min(60, len(smt.Print(cond)))]]++
		profMu.Unlock()
	}
	as := append(append([]*smt.Term{}, in.pc...), cond)
	in.stats.mu.Lock()
	in.stats.FeasQ++
	in.stats.mu.Unlock()
	r, _, err := in.solver.Check(as, nil)
	if err != nil {
		in.inconclusive("feasibility query: " + err.Error())
		return true
	}
	in.qcount++
	if in.solver2 != nil && in.qcount%in.CrossEvery == 0 {
		in.crossCheck(as, r, "feasibility")
	}
	return r != smt.Unsat
}

// crossCheck re-discharges a query on the second solver; a disagreement
// between two definite answers makes the run inconclusive.
func (in *Interp) crossCheck(as []*smt.Term, r smt.Result, kind string) {
	r2, _, err := in.solver2.Check(as, nil)
	in.stats.mu.Lock()
	in.stats.CrossQ++
	if err == nil && r2 != smt.Unknown && r != smt.Unknown && r2 == r {
		in.stats.CrossAgree++
	}
	in.stats.mu.Unlock()
	if err != nil {
		in.inconclusive("cross-check solver error (" + kind + "): " + err.Error())
		return
	}
	if r2 != smt.Unknown && r != smt.Unknown && r2 != r {
		in.inconclusive(fmt.Sprintf("SOLVER DISAGREEMENT on a %s query: %s says %v, %s says %v", kind, in.solver.Name, r, in.solver2.Name, r2))
	}
}

func (in *Interp) inconclusive(msg string) {
	in.stats.mu.Lock()
	if len(in.stats.Inconcl) < 50 {
		in.stats.Inconcl = append(in.stats.Inconcl, msg)
	}
	in.stats.mu.Unlock()
}

// choose is an n-way case split without solver involvement.
func (in *Interp) choose(n int) int {
	if n <= 0 {
		panic("choose: n <= 0")
	}
	if n == 1 {
		return 0
	}
	pos := len(in.taken)
	if pos < len(in.prefix) {
		d := in.prefix[pos]
		in.taken = append(in.taken, d)
		return d
	}
	for d := 1; d < n; d++ {
		alt := append(append([]int{}, in.taken...), d)
		in.forks = append(in.forks, alt)
	}
	in.taken = append(in.taken, 0)
	return 0
}

// assume adds cond to the path condition; an infeasible path is abandoned.
func (in *Interp) assume(v Value) {
	switch c := v.(type) {
	case bool:
		if !c {
			panic(abortPath{"assume(false)"})
		}
	case SymBool:
		if len(in.taken) < len(in.prefix) || true {
			// Always check feasibility unless replaying inside the prefix,
			// where the parent already established it.
		}
		if v, ok := in.syntactic(c.T); ok {
			if !v {
				panic(abortPath{"assumption infeasible"})
			}
			return
		}
		if len(in.taken) < len(in.prefix) {
			// still replaying the prefix: the parent run executed this very
			// assumption under the same path condition and found it feasible
			in.addPC(c.T)
			return
		}
		if !in.feasibleCached(c.T) {
			panic(abortPath{"assumption infeasible"})
		}
		in.addPC(c.T)
	default:
		checkPoison(v)
		panic(fmt.Sprintf("assume: %T", v))
	}
}

func (in *Interp) feasibleCached(t *smt.Term) bool { return in.feasible(t) }

// modelValues extracts the values of all named inputs from a model.
func (in *Interp) inputTerms() []*smt.Term {
	var ts []*smt.Term
	for _, iv := range in.inputs {
		ts = append(ts, iv.Terms...)
	}
	return ts
}

func (in *Interp) buildModel(m map[*smt.Term]interface{}) map[string]interface{} {
	out := map[string]interface{}{}
	if len(in.events) > 0 {
		// order of the harness-level events on this path: steers the native replay
		out["__events"] = map[string]interface{}{"kind": "events", "v": append([]string{}, in.events...)}
	}
	for _, iv := range in.inputs {
		switch iv.Kind {
		case "strn":
			bs := make([]byte, len(iv.Terms))
			for i, t := range iv.Terms {
				if v, ok := m[t]; ok {
					bs[i] = byte(v.(uint64))
				}
			}
			out[iv.Name] = map[string]interface{}{"kind": "str", "hex": fmt.Sprintf("%x", bs), "text": safeText(string(bs))}
		case "str":
			s := ""
			if v, ok := m[iv.Terms[0]]; ok {
				s = v.(string)
			}
			out[iv.Name] = map[string]interface{}{"kind": "str", "hex": fmt.Sprintf("%x", []byte(s)), "text": safeText(s)}
		case "bool":
			b := false
			if v, ok := m[iv.Terms[0]]; ok {
				b = v.(uint64) != 0
			}
			out[iv.Name] = map[string]interface{}{"kind": "bool", "v": b}
		case "int", "time", "choose":
			var u uint64
			if len(iv.Terms) > 0 {
				if v, ok := m[iv.Terms[0]]; ok {
					u = v.(uint64)
				}
			}
			// as signed decimal string to survive JSON
			sh := uint(64 - iv.W)
			s := int64(u<<sh) >> sh
			out[iv.Name] = map[string]interface{}{"kind": iv.Kind, "v": fmt.Sprintf("%d", s), "w": iv.W}
		}
	}
	return out
}

func safeText(s string) string {
	var sb strings.Builder
	for i := 0; i < len(s); i++ {
		c := s[i]
		if c >= 0x20 && c < 0x7f && c != '\\' {
			sb.WriteByte(c)
		} else {
			fmt.Fprintf(&sb, "\\x%02x", c)
		}
	}
	return sb.String()
}

// check discharges an obligation on the current path.
func (in *Interp) check(v Value, msg, knownID string, fr *frame) {
	in.asserts++
	switch c := v.(type) {
	case bool:
		if c {
			return
		}
		// concrete failure: any model of the path condition is a witness
		r, m, err := in.solver.Check(in.pc, in.inputTerms())
		in.stats.mu.Lock()
		in.stats.OblQ++
		in.stats.mu.Unlock()
		if err != nil || r == smt.Unknown {
			if os.Getenv("VERIF_DUMP_UNKNOWN") != "" {
				var sb strings.Builder
				for _, t := range in.pc {
					sb.WriteString("(assert " + smt.Print(t) + ")\n")
				}
				os.WriteFile(os.Getenv("VERIF_DUMP_UNKNOWN"), []byte(sb.String()), 0o644)
			}
			in.inconclusive(fmt.Sprintf("model query for failed assertion %q: %v %v", msg, r, err))
			panic(abortPath{"assertion failed (no model)"})
		}
		if r == smt.Unsat {
			panic(abortPath{"path infeasible at failed assertion"})
		}
		in.findings = append(in.findings, Finding{Kind: "assert", Msg: msg, KnownID: knownID, Decisions: append([]int{}, in.taken...), Model: in.buildModel(m), Stack: stackOf(fr), Observed: append([]string{}, in.observed...)})
		panic(abortPath{"assertion failed"})
	case SymBool:
		in.symAssert++
		if v, ok := in.syntactic(c.T); ok && v {
			in.stats.mu.Lock()
			in.stats.Discharged++
			in.stats.mu.Unlock()
			return
		}
		as := append(append([]*smt.Term{}, in.pc...), in.ctx.Not(c.T))
		r, m, err := in.solver.Check(as, in.inputTerms())
		in.stats.mu.Lock()
		in.stats.OblQ++
		in.stats.mu.Unlock()
		if in.solver2 != nil && err == nil {
			in.crossCheck(as, r, "obligation")
		}
		switch {
		case err != nil || r == smt.Unknown:
			in.inconclusive(fmt.Sprintf("obligation %q: %v %v", msg, r, err))
		case r == smt.Sat:
			in.findings = append(in.findings, Finding{Kind: "assert", Msg: msg, KnownID: knownID, Decisions: append([]int{}, in.taken...), Model: in.buildModel(m), Stack: stackOf(fr), Observed: append([]string{}, in.observed...)})
		default:
			in.stats.mu.Lock()
			in.stats.Discharged++
			in.stats.mu.Unlock()
		}
		// continue under the assumption that it holds
		in.addPC(c.T)
		if r == smt.Sat {
			if !in.feasible(in.ctx.T) {
				panic(abortPath{"nothing left after failed assertion"})
			}
		}
	default:
		checkPoison(v)
		panic(fmt.Sprintf("assert: %T", v))
	}
}

// reach records a vacuity witness: the path condition at this point is
// satisfiable (it is by construction, but a model is fetched to prove it
// and to serve as a translator-validation vector).
func (in *Interp) reach(label string) {
	if in.reached[label] || len(in.findings) > 0 {
		return
	}
	in.reached[label] = true
	// order paths by a hash of their decision list: still a deterministic
	// choice, but the exploration order (which walks the decision tree in a
	// regular direction) does not make every new path the smallest so far
	key := hashedKey(in.taken)
	in.stats.mu.Lock()
	in.stats.Witnesses[label]++
	kept := in.stats.witnessKept[label]
	need := len(kept) < 3 || key < kept[len(kept)-1].key
	in.stats.mu.Unlock()
	if !need {
		return
	}
	// the witness set is the three smallest decision lists reaching the
	// label: deterministic, whatever the scheduling of the workers
	r, m, err := in.solver.Check(in.pc, in.inputTerms())
	if err != nil || r != smt.Sat {
		if r == smt.Unsat {
			in.stats.mu.Lock()
			in.stats.Witnesses[label]--
			in.stats.mu.Unlock()
			return // infeasible path reached the label: not a witness
		}
		in.inconclusive(fmt.Sprintf("witness query %q: %v %v", label, r, err))
		return
	}
	mm := in.buildModel(m)
	mm["@decisions"] = append([]int{}, in.taken...)
	mm["@label"] = label
	in.stats.mu.Lock()
	kept = append(in.stats.witnessKept[label], keptWitness{key: key, model: mm})
	sort.Slice(kept, func(i, j int) bool { return kept[i].key < kept[j].key })
	if len(kept) > 3 {
		kept = kept[:3]
	}
	in.stats.witnessKept[label] = kept
	in.stats.mu.Unlock()
}

type keptWitness struct {
	key   string
	model map[string]interface{}
}

func hashedKey(d []int) string {
	k := decisionKey(d)
	h := fnv.New64a()
	h.Write([]byte(k))
	return fmt.Sprintf("%016x", h.Sum64()) + k
}

func decisionKey(d []int) string {
	b := make([]byte, len(d))
	for i, x := range d {
		b[i] = byte('0' + x)
	}
	return string(b)
}

// PathResult is what one path run reports back to the explorer.
type PathResult struct {
	Outcome  string // ok, pruned, violation, unsupported, budget, internal
	Detail   string
	Forks    [][]int
	Findings []Finding
	Steps    int
}

// RunPath executes the entry function once under the decision prefix.
func (in *Interp) RunPath(entry *ssa.Function, prefix []int) (res PathResult) {
	in.globals = map[*ssa.Global]*Value{}
	in.pkgInit = map[*ssa.Package]int{}
	in.steps = 0
	in.depth = 0
	in.prefix = prefix
	in.taken = in.taken[:0]
	in.pc = nil
	in.pcSet = map[*smt.Term]bool{}
	in.pcVal = map[*smt.Term]*smt.Term{}
	in.pcDom = map[*smt.Term]*domain{}
	in.forks = nil
	in.inputs = nil
	in.nameCount = map[string]int{}
	in.inStub = map[string]bool{}
	in.findings = nil
	in.asserts = 0
	in.symAssert = 0
	in.reached = map[string]bool{}
	in.observed = nil
	in.labels = map[string]Value{}
	in.frozen = nil
	in.frozenMap = nil
	in.lastPanicStack = ""
	in.inErrorf = 0
	in.opaqueCount = 0
	in.conc = nil
	in.events = nil
	in.raceOff = 0
	if in.ctx.NumTerms() > 400000 {
		in.ctx = smt.NewCtx()
	}

	defer func() {
		r := recover()
		in.concShutdown()
		res.Forks = in.forks
		res.Findings = in.findings
		res.Steps = in.steps
		if r == nil {
			return
		}
		stack := ""
		if ep, ok := r.(*enginePanic); ok {
			stack = ep.stack
			r = ep.cause
		}
		switch p := r.(type) {
		case abortPath:
			if len(in.findings) > 0 {
				res.Outcome = "violation"
			} else {
				res.Outcome = "pruned"
			}
			res.Detail = p.why
		case unsupportedPanic:
			res.Outcome = "unsupported"
			res.Detail = p.msg + " [" + stack + "]"
		case budgetPanic:
			res.Outcome = "budget"
			res.Detail = p.msg + " [" + stack + "]"
		case deadlockPanic:
			// every goroutine of the program under test is blocked for ever
			f := Finding{Kind: "deadlock", Msg: "deadlock: " + p.msg, Decisions: append([]int{}, in.taken...), Stack: stack}
			rr, m, err := in.solver.Check(in.pc, in.inputTerms())
			if err == nil && rr == smt.Sat {
				f.Model = in.buildModel(m)
				res.Findings = append(res.Findings, f)
				res.Outcome = "violation"
			} else if rr == smt.Unsat {
				res.Outcome = "pruned"
			} else {
				res.Outcome = "unsupported"
				res.Detail = "model query for deadlock failed"
			}
			res.Detail = f.Msg
		case targetPanic, runtimeError:
			// uncaught panic of the program under test
			msg := ""
			if tp, ok := p.(targetPanic); ok {
				msg = in.panicText(tp.v)
			} else {
				msg = p.(runtimeError).Error()
			}
			f := Finding{Kind: "panic", Msg: "uncaught panic: " + msg, Decisions: append([]int{}, in.taken...), Stack: in.lastPanicStack}
			rr, m, err := in.solver.Check(in.pc, in.inputTerms())
			if err == nil && rr == smt.Sat {
				f.Model = in.buildModel(m)
				res.Findings = append(res.Findings, f)
				res.Outcome = "violation"
			} else if rr == smt.Unsat {
				res.Outcome = "pruned"
			} else {
				res.Outcome = "unsupported"
				res.Detail = "model query for panic failed"
			}
			res.Detail = f.Msg
		default:
			res.Outcome = "internal"
			res.Detail = fmt.Sprintf("%v [%s]", r, stack)
		}
	}()

	in.call(nil, token.NoPos, entry, nil)
	if len(in.findings) > 0 {
		res.Outcome = "violation"
	} else {
		res.Outcome = "ok"
	}
	return
}

func (in *Interp) panicText(v Value) string {
	if i, ok := v.(Iface); ok {
		if s, ok := i.V.(string); ok {
			return s
		}
		if i.T != nil {
			return "(" + i.T.String() + ") " + toString(i.V)
		}
	}
	return toString(v)
}

type enginePanic struct {
	cause interface{}
	stack string
}

// ---------------------------------------------------------------------
// exploration over all paths with a pool of workers

type ExploreConfig struct {
	Workers    int
	Solver     string
	TimeoutMs  int
	StepBudget int
	ForkBudget int
	MaxPaths   int
	Deadline   time.Time
	SolverLog  string
	Solver2    string // cross-check solver ("" = none)
	CrossEvery int    // cross-check every n-th feasibility query
	Progress   io.Writer
}

type ExploreResult struct {
	Stats     *Stats
	Exhausted bool // false if MaxPaths/Deadline cut the exploration
	CutReason string
}

func Explore(p *Program, entry *ssa.Function, cfg ExploreConfig) (*ExploreResult, error) {
	stats := NewStats()
	type job struct{ prefix []int }
	var mu sync.Mutex
	cond := sync.NewCond(&mu)
	queue := [][]int{{}}
	active := 0
	cut := ""
	started := 0

	var wg sync.WaitGroup
	var firstErr error
	stopProgress := make(chan struct{})
	if cfg.Progress != nil {
		go func() {
			tk := time.NewTicker(5 * time.Second)
			defer tk.Stop()
			for {
				select {
				case <-stopProgress:
					return
				case <-tk.C:
					mu.Lock()
					ql, ac, stt := len(queue), active, started
					mu.Unlock()
					stats.mu.Lock()
					fmt.Fprintf(cfg.Progress, "  progress: started=%d queue=%d active=%d completed=%d pruned=%d findings=%d inconcl=%d feasQ=%d\n", stt, ql, ac, stats.Completed, stats.Pruned, len(stats.Findings), len(stats.Inconcl), stats.FeasQ)
					stats.mu.Unlock()
				}
			}
		}()
	}
	for w := 0; w < cfg.Workers; w++ {
		wg.Add(1)
		go func(w int) {
			defer wg.Done()
			solver, err := smt.NewSolver(cfg.Solver, cfg.TimeoutMs)
			if err != nil {
				mu.Lock()
				if firstErr == nil {
					firstErr = err
				}
				mu.Unlock()
				return
			}
			defer solver.Close()
			var solver2 *smt.Solver
			if cfg.Solver2 != "" {
				solver2, err = smt.NewSolver(cfg.Solver2, cfg.TimeoutMs)
				if err != nil {
					mu.Lock()
					if firstErr == nil {
						firstErr = err
					}
					mu.Unlock()
					return
				}
				defer solver2.Close()
			}
			ce := cfg.CrossEvery
			if ce <= 0 {
				ce = 50
			}
			in := &Interp{prog: p, ctx: smt.NewCtx(), solver: solver, solver2: solver2, CrossEvery: ce, stats: stats,
				lfuncs: map[*ssa.Function]int{}, lintr: map[string]int{}, lstubs: map[string]int{},
				StepBudget: cfg.StepBudget, DepthBudget: 400, ForkBudget: cfg.ForkBudget, ConcretizeLimit: 64}
			for {
				mu.Lock()
				for len(queue) == 0 && active > 0 && cut == "" {
					cond.Wait()
				}
				if cut != "" || (len(queue) == 0 && active == 0) {
					mu.Unlock()
					cond.Broadcast()
					break
				}
				if cfg.MaxPaths > 0 && started >= cfg.MaxPaths {
					cut = fmt.Sprintf("path limit %d reached", cfg.MaxPaths)
					mu.Unlock()
					cond.Broadcast()
					break
				}
				if !cfg.Deadline.IsZero() && time.Now().After(cfg.Deadline) {
					cut = "deadline reached"
					mu.Unlock()
					cond.Broadcast()
					break
				}
				// depth-first: take the most recent prefix
				pre := queue[len(queue)-1]
				queue = queue[:len(queue)-1]
				active++
				started++
				mu.Unlock()

				res := in.RunPath(entry, pre)

				stats.mu.Lock()
				stats.Paths++
				stats.Decisions += len(in.taken)
				stats.Asserts += in.asserts
				stats.SymAsserts += in.symAssert
				if res.Steps > stats.MaxSteps {
					stats.MaxSteps = res.Steps
				}
				switch res.Outcome {
				case "ok":
					stats.Completed++
				case "pruned":
					stats.Pruned++
				case "violation":
					stats.Completed++
				case "unsupported", "budget", "internal":
					if len(stats.Inconcl) < 50 {
						stats.Inconcl = append(stats.Inconcl, res.Outcome+": "+res.Detail)
					}
				}
				for _, f := range res.Findings {
					key := f.Kind + "|" + f.Msg + "|" + f.KnownID
					stats.FindingCount[key]++
					// keep the five counterexamples with the smallest decision
					// lists per obligation: a deterministic choice
					ks := append(stats.findingKept[key], f)
					sort.SliceStable(ks, func(i, j int) bool { return decisionKey(ks[i].Decisions) < decisionKey(ks[j].Decisions) })
					if len(ks) > 5 {
						ks = ks[:5]
					}
					if len(stats.findingKept) < 200 || stats.findingKept[key] != nil {
						stats.findingKept[key] = ks
					}
				}
				if len(stats.Samples) < 12 || (res.Outcome != "ok" && res.Outcome != "pruned" && len(stats.Samples) < 24) {
					stats.Samples = append(stats.Samples, PathSample{Decisions: append([]int{}, in.taken...), Outcome: res.Outcome, Steps: res.Steps, Asserts: in.asserts, Observed: in.observed})
				}
				stats.mu.Unlock()

				mu.Lock()
				queue = append(queue, res.Forks...)
				active--
				mu.Unlock()
				cond.Broadcast()
			}
			in.mergeLocalStats()
			stats.mu.Lock()
			stats.SolverTime += solver.Time
			if solver2 != nil {
				stats.SolverTime += solver2.Time
			}
			stats.mu.Unlock()
		}(w)
	}
	wg.Wait()
	close(stopProgress)
	if firstErr != nil {
		return nil, firstErr
	}
	{
		var labels []string
		for l := range stats.witnessKept {
			labels = append(labels, l)
		}
		sort.Strings(labels)
		// round-robin over the labels so that a replay budget of n models
		// covers as many labels as possible
		for rank := 0; rank < 3; rank++ {
			for _, l := range labels {
				if k := stats.witnessKept[l]; rank < len(k) {
					stats.WitnessMods = append(stats.WitnessMods, k[rank].model)
				}
			}
		}
	}
	for _, ks := range stats.findingKept {
		stats.Findings = append(stats.Findings, ks...)
	}
	sort.SliceStable(stats.Findings, func(i, j int) bool {
		return decisionKey(stats.Findings[i].Decisions) < decisionKey(stats.Findings[j].Decisions)
	})
	sort.SliceStable(stats.Findings, func(i, j int) bool {
		return fmt.Sprint(stats.Findings[i].Decisions) < fmt.Sprint(stats.Findings[j].Decisions)
	})
	return &ExploreResult{Stats: stats, Exhausted: cut == "", CutReason: cut}, nil
}

// assumeFresh adds a constraint that only restricts variables created just
// now (always satisfiable together with any path condition): no query.
func (in *Interp) assumeFresh(t *smt.Term) { in.addPC(t) }
