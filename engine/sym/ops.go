package sym

import (
	"fmt"
	"go/constant"
	"go/token"
	"go/types"
	"math"
	"unicode/utf8"

	"golang.org/x/tools/go/ssa"

	"verif/engine/smt"
)

func (in *Interp) constValue(c *ssa.Const) Value {
	if c.Value == nil {
		return zero(c.Type())
	}
	if t, ok := c.Type().Underlying().(*types.Basic); ok {
		switch {
		case t.Kind() == types.Bool || t.Kind() == types.UntypedBool:
			return constant.BoolVal(c.Value)
		case t.Info()&types.IsInteger != 0:
			w, signed, _ := intInfo(t)
			if signed {
				return mkInt(uint64(c.Int64()), w)
			}
			return mkInt(c.Uint64(), w)
		case t.Kind() == types.Float32:
			return Float{V: float64(float32(c.Float64())), W: 32}
		case t.Kind() == types.Float64 || t.Kind() == types.UntypedFloat:
			return Float{V: c.Float64(), W: 64}
		case t.Info()&types.IsString != 0:
			if c.Value.Kind() == constant.String {
				return constant.StringVal(c.Value)
			}
			return string(rune(c.Int64()))
		}
	}
	panic(unsupported(fmt.Sprintf("constant %v of type %v", c, c.Type())))
}

// term returns the SMT term of an integer value.
func (in *Interp) term(v Value) *smt.Term {
	switch v := v.(type) {
	case Int:
		return in.ctx.BVConst(v.V, int(v.W))
	case SymInt:
		return v.T
	}
	checkPoison(v)
	panic(fmt.Sprintf("term: not an integer: %T", v))
}

// int64Term is the term of an index value widened to 64 bits (indices are
// of type int here, which is 64 bits wide).
func (in *Interp) int64Term(v Value) *smt.Term {
	t := in.term(v)
	if t.Sort.W != 64 {
		panic(unsupported("index of an opaque byte slice that is not 64 bits wide"))
	}
	return t
}

func (in *Interp) boolTerm(v Value) *smt.Term {
	switch v := v.(type) {
	case bool:
		return in.ctx.Bool(v)
	case SymBool:
		return v.T
	}
	checkPoison(v)
	panic(fmt.Sprintf("boolTerm: not a bool: %T", v))
}

// fromTerm wraps a term as a value, folding constants back to concrete.
func fromTerm(t *smt.Term) Value {
	switch t.Sort.K {
	case smt.KBool:
		switch t.Op {
		case smt.OpTrue:
			return true
		case smt.OpFalse:
			return false
		}
		return SymBool{t}
	case smt.KBV:
		if t.Op == smt.OpBVConst {
			return Int{V: t.Val, W: uint8(t.Sort.W)}
		}
		return SymInt{t}
	default:
		if t.Op == smt.OpSeqConst {
			return t.Name
		}
		return OStr{t}
	}
}

// seqTerm converts any string value to a sequence term.
func (in *Interp) seqTerm(v Value) *smt.Term {
	switch s := v.(type) {
	case string:
		return in.ctx.SeqConst(s)
	case OStr:
		return s.T
	case XStr:
		parts := make([]*smt.Term, len(s.B))
		for i, b := range s.B {
			parts[i] = in.ctx.SeqUnit(in.term(b))
		}
		return in.ctx.SeqConcat(parts...)
	}
	checkPoison(v)
	panic(fmt.Sprintf("seqTerm: not a string: %T", v))
}

func asInt64(x Value) int64 {
	switch x := x.(type) {
	case Int:
		return x.Signed()
	}
	checkPoison(x)
	panic(fmt.Sprintf("cannot convert %T to int64", x))
}

// concInt makes a symbolic integer concrete by forking over its feasible
// values within [0,n) plus one out-of-range path (returned as -1).
func (in *Interp) concIndex(v Value, n int) int {
	switch v := v.(type) {
	case Int:
		i := v.Signed()
		if i < 0 || i >= int64(n) {
			return -1
		}
		return int(i)
	case SymInt:
		w := v.T.Sort.W
		for i := 0; i < n && (w >= 63 || i < 1<<uint(w)); i++ {
			if in.decide(in.ctx.Eq(v.T, in.ctx.BVConst(uint64(i), w))) {
				return i
			}
		}
		return -1
	}
	checkPoison(v)
	panic(fmt.Sprintf("concIndex: %T", v))
}

// ---------------------------------------------------------------------

func (in *Interp) binop(op token.Token, t types.Type, x, y Value) Value {
	checkPoison(x)
	checkPoison(y)
	switch op {
	case token.EQL:
		return in.equals(t, x, y)
	case token.NEQ:
		return in.not(in.equals(t, x, y))
	}
	if isStringType(t) {
		return in.strBinop(op, x, y)
	}
	if fx, ok := x.(Float); ok {
		fy := y.(Float)
		return floatBinop(op, fx, fy)
	}
	// shifts: operand widths may differ
	if op == token.SHL || op == token.SHR {
		return in.shift(op, t, x, y)
	}
	w, signed, ok := intInfo(t)
	if !ok {
		panic(unsupported(fmt.Sprintf("binop %s on type %v", op, t)))
	}
	cx, xok := x.(Int)
	cy, yok := y.(Int)
	if xok && yok {
		return concBinop(op, cx, cy, w, signed)
	}
	c := in.ctx
	tx, ty := in.term(x), in.term(y)
	switch op {
	case token.ADD:
		return fromTerm(c.BVBin(smt.OpBVAdd, tx, ty))
	case token.SUB:
		return fromTerm(c.BVBin(smt.OpBVSub, tx, ty))
	case token.MUL:
		return fromTerm(c.BVBin(smt.OpBVMul, tx, ty))
	case token.QUO, token.REM:
		// division by zero is a run-time panic
		if in.decide(c.Eq(ty, c.BVConst(0, int(w)))) {
			panic(runtimeError("integer divide by zero"))
		}
		var o smt.Op
		switch {
		case op == token.QUO && signed:
			o = smt.OpBVSDiv
		case op == token.QUO:
			o = smt.OpBVUDiv
		case signed:
			o = smt.OpBVSRem
		default:
			o = smt.OpBVURem
		}
		return fromTerm(c.BVBin(o, tx, ty))
	case token.AND:
		return fromTerm(c.BVBin(smt.OpBVAnd, tx, ty))
	case token.OR:
		return fromTerm(c.BVBin(smt.OpBVOr, tx, ty))
	case token.XOR:
		return fromTerm(c.BVBin(smt.OpBVXor, tx, ty))
	case token.AND_NOT:
		return fromTerm(c.BVBin(smt.OpBVAnd, tx, c.BVUn(smt.OpBVNot, ty)))
	case token.LSS:
		if signed {
			return fromTerm(c.Cmp(smt.OpSLt, tx, ty))
		}
		return fromTerm(c.Cmp(smt.OpULt, tx, ty))
	case token.LEQ:
		if signed {
			return fromTerm(c.Cmp(smt.OpSLe, tx, ty))
		}
		return fromTerm(c.Cmp(smt.OpULe, tx, ty))
	case token.GTR:
		if signed {
			return fromTerm(c.Cmp(smt.OpSLt, ty, tx))
		}
		return fromTerm(c.Cmp(smt.OpULt, ty, tx))
	case token.GEQ:
		if signed {
			return fromTerm(c.Cmp(smt.OpSLe, ty, tx))
		}
		return fromTerm(c.Cmp(smt.OpULe, ty, tx))
	}
	panic(unsupported(fmt.Sprintf("binop %s on symbolic integers", op)))
}

func concBinop(op token.Token, x, y Int, w uint8, signed bool) Value {
	sx, sy := x.Signed(), y.Signed()
	switch op {
	case token.ADD:
		return mkInt(x.V+y.V, w)
	case token.SUB:
		return mkInt(x.V-y.V, w)
	case token.MUL:
		return mkInt(x.V*y.V, w)
	case token.QUO:
		if y.V == 0 {
			panic(runtimeError("integer divide by zero"))
		}
		if signed {
			if sy == -1 {
				return mkInt(uint64(-sx), w)
			}
			return mkInt(uint64(sx/sy), w)
		}
		return mkInt(x.V/y.V, w)
	case token.REM:
		if y.V == 0 {
			panic(runtimeError("integer divide by zero"))
		}
		if signed {
			if sy == -1 {
				return mkInt(0, w)
			}
			return mkInt(uint64(sx%sy), w)
		}
		return mkInt(x.V%y.V, w)
	case token.AND:
		return mkInt(x.V&y.V, w)
	case token.OR:
		return mkInt(x.V|y.V, w)
	case token.XOR:
		return mkInt(x.V^y.V, w)
	case token.AND_NOT:
		return mkInt(x.V&^y.V, w)
	case token.LSS:
		if signed {
			return sx < sy
		}
		return x.V < y.V
	case token.LEQ:
		if signed {
			return sx <= sy
		}
		return x.V <= y.V
	case token.GTR:
		if signed {
			return sx > sy
		}
		return x.V > y.V
	case token.GEQ:
		if signed {
			return sx >= sy
		}
		return x.V >= y.V
	}
	panic(fmt.Sprintf("concBinop: bad op %s", op))
}

func floatBinop(op token.Token, x, y Float) Value {
	r := func(v float64) Value {
		if x.W == 32 {
			return Float{V: float64(float32(v)), W: 32}
		}
		return Float{V: v, W: 64}
	}
	switch op {
	case token.ADD:
		return r(x.V + y.V)
	case token.SUB:
		return r(x.V - y.V)
	case token.MUL:
		return r(x.V * y.V)
	case token.QUO:
		return r(x.V / y.V)
	case token.LSS:
		return x.V < y.V
	case token.LEQ:
		return x.V <= y.V
	case token.GTR:
		return x.V > y.V
	case token.GEQ:
		return x.V >= y.V
	}
	panic(unsupported("float binop " + op.String()))
}

func (in *Interp) shift(op token.Token, t types.Type, x, y Value) Value {
	w, signed, ok := intInfo(t)
	if !ok {
		panic(unsupported("shift on non-integer"))
	}
	if cy, ok := y.(Int); ok {
		// the count's own signedness is unknown here; negative counts
		// are rejected by the compiler for constants and panic at run
		// time otherwise; a huge unsigned count behaves like >= w.
		n := cy.V
		if cx, ok := x.(Int); ok {
			if op == token.SHL {
				if n >= uint64(w) {
					return mkInt(0, w)
				}
				return mkInt(cx.V<<n, w)
			}
			if signed {
				if n >= uint64(w) {
					n = uint64(w) - 1
				}
				return mkInt(uint64(cx.Signed()>>n), w)
			}
			if n >= uint64(w) {
				return mkInt(0, w)
			}
			return mkInt(cx.V>>n, w)
		}
		c := in.ctx
		tx := in.term(x)
		if n >= uint64(w) {
			if op == token.SHR && signed {
				n = uint64(w) - 1
			} else {
				return mkInt(0, w)
			}
		}
		ty := c.BVConst(n, int(w))
		switch {
		case op == token.SHL:
			return fromTerm(c.BVBin(smt.OpBVShl, tx, ty))
		case signed:
			return fromTerm(c.BVBin(smt.OpBVAShr, tx, ty))
		default:
			return fromTerm(c.BVBin(smt.OpBVLShr, tx, ty))
		}
	}
	// symbolic count
	c := in.ctx
	tx, ty := in.term(x), in.term(y)
	yw := ty.Sort.W
	var tyr *smt.Term
	var big *smt.Term // count >= w
	if yw > int(w) {
		big = c.Cmp(smt.OpULe, c.BVConst(uint64(w), yw), ty)
		tyr = c.Extract(int(w)-1, 0, ty)
	} else {
		tyr = c.ZeroExt(int(w)-yw, ty)
		big = c.F
	}
	var r *smt.Term
	switch {
	case op == token.SHL:
		r = c.Ite(big, c.BVConst(0, int(w)), c.BVBin(smt.OpBVShl, tx, tyr))
	case signed:
		r = c.Ite(big, c.BVBin(smt.OpBVAShr, tx, c.BVConst(uint64(w)-1, int(w))), c.BVBin(smt.OpBVAShr, tx, tyr))
	default:
		r = c.Ite(big, c.BVConst(0, int(w)), c.BVBin(smt.OpBVLShr, tx, tyr))
	}
	return fromTerm(r)
}

func (in *Interp) not(v Value) Value {
	switch v := v.(type) {
	case bool:
		return !v
	case SymBool:
		return fromTerm(in.ctx.Not(v.T))
	}
	checkPoison(v)
	panic(fmt.Sprintf("not: %T", v))
}

func (in *Interp) and(a, b Value) Value {
	return fromTerm(in.ctx.And(in.boolTerm(a), in.boolTerm(b)))
}

func (in *Interp) or(a, b Value) Value {
	return fromTerm(in.ctx.Or(in.boolTerm(a), in.boolTerm(b)))
}

func (in *Interp) unop(instr *ssa.UnOp, x Value) Value {
	switch instr.Op {
	case token.ARROW:
		return in.chanRecv(in.curFrame, x, instr.X.Type().Underlying().(*types.Chan).Elem(), instr.CommaOk)
	case token.MUL:
		if r, ok := x.(SymElemRef); ok {
			return in.selectElem(r)
		}
		if r, ok := x.(OByteRef); ok {
			return fromTerm(in.ctx.SeqNth(r.T, r.Idx))
		}
		checkPoison(x)
		p, ok := x.(*Value)
		if !ok {
			panic(fmt.Sprintf("load through non-pointer %T", x))
		}
		in.raceRead(p, in.curFrame)
		return load(deref(instr.X.Type()), p)
	case token.NOT:
		return in.not(x)
	}
	checkPoison(x)
	if f, ok := x.(Float); ok {
		if instr.Op == token.SUB {
			return Float{V: -f.V, W: f.W}
		}
		panic(unsupported("float unop"))
	}
	w, _, ok := intInfo(instr.X.Type())
	if !ok {
		panic(unsupported(fmt.Sprintf("unop %s on %v", instr.Op, instr.X.Type())))
	}
	switch instr.Op {
	case token.SUB:
		if c, ok := x.(Int); ok {
			return mkInt(-c.V, w)
		}
		return fromTerm(in.ctx.BVUn(smt.OpBVNeg, in.term(x)))
	case token.XOR:
		if c, ok := x.(Int); ok {
			return mkInt(^c.V, w)
		}
		return fromTerm(in.ctx.BVUn(smt.OpBVNot, in.term(x)))
	}
	panic(fmt.Sprintf("invalid unary op %s %T", instr.Op, x))
}

// selectElem builds an if-then-else chain selecting Elems[Idx]; the index
// is known to be in range on this path.
func (in *Interp) selectElem(r SymElemRef) Value {
	c := in.ctx
	n := len(r.Elems)
	if n == 0 {
		panic("selectElem: empty")
	}
	w := r.Idx.Sort.W
	switch r.Elems[0].(type) {
	case Int, SymInt:
		// runs of identical elements share one comparison
		type run struct {
			hi int
			t  *smt.Term
		}
		var runs []run
		for i := 0; i < n; {
			t := in.term(r.Elems[i])
			j := i
			for j+1 < n && in.term(r.Elems[j+1]) == t {
				j++
			}
			runs = append(runs, run{j, t})
			i = j + 1
		}
		res := runs[len(runs)-1].t
		for k := len(runs) - 2; k >= 0; k-- {
			res = c.Ite(c.Cmp(smt.OpULe, r.Idx, c.BVConst(uint64(runs[k].hi), w)), runs[k].t, res)
		}
		return fromTerm(res)
	case bool, SymBool:
		res := in.boolTerm(r.Elems[n-1])
		for i := n - 2; i >= 0; i-- {
			res = c.Ite(c.Eq(r.Idx, c.BVConst(uint64(i), w)), in.boolTerm(r.Elems[i]), res)
		}
		return fromTerm(res)
	}
	panic(unsupported(fmt.Sprintf("symbolic index into elements of type %T", r.Elems[0])))
}

// ---------------------------------------------------------------------
// equality

// equals implements Go's == for type t; the result is bool or SymBool.
func (in *Interp) equals(t types.Type, x, y Value) Value {
	checkPoison(x)
	checkPoison(y)
	switch x := x.(type) {
	case bool:
		switch y := y.(type) {
		case bool:
			return x == y
		case SymBool:
			return fromTerm(in.ctx.Eq(in.ctx.Bool(x), y.T))
		}
	case SymBool:
		return fromTerm(in.ctx.Eq(x.T, in.boolTerm(y)))
	case Int:
		if cy, ok := y.(Int); ok {
			return x.V == cy.V
		}
		return fromTerm(in.ctx.Eq(in.term(x), in.term(y)))
	case SymInt:
		return fromTerm(in.ctx.Eq(x.T, in.term(y)))
	case Float:
		return x.V == y.(Float).V
	case string, XStr, OStr:
		return in.strEq(x, y)
	case *Value:
		yp, ok := y.(*Value)
		if !ok {
			panic(fmt.Sprintf("equals: pointer vs %T", y))
		}
		return x == yp
	case *Chan:
		return x == y.(*Chan)
	case Struct:
		ys := y.(Struct)
		st := t.Underlying().(*types.Struct)
		var acc Value = true
		for i, n := 0, st.NumFields(); i < n; i++ {
			f := st.Field(i)
			if f.Name() == "_" {
				continue
			}
			e := in.equals(f.Type(), x[i], ys[i])
			if b, ok := e.(bool); ok && !b {
				return false
			}
			acc = in.and(acc, e)
		}
		return acc
	case Array:
		ya := y.(Array)
		et := t.Underlying().(*types.Array).Elem()
		var acc Value = true
		for i := range x {
			e := in.equals(et, x[i], ya[i])
			if b, ok := e.(bool); ok && !b {
				return false
			}
			acc = in.and(acc, e)
		}
		return acc
	case Iface:
		yi, ok := y.(Iface)
		if !ok {
			panic(fmt.Sprintf("equals: iface vs %T", y))
		}
		if x.T == nil || yi.T == nil {
			return x.T == nil && yi.T == nil
		}
		if !types.Identical(x.T, yi.T) {
			return false
		}
		if !types.Comparable(x.T) {
			panic(runtimeError("comparing uncomparable type " + x.T.String()))
		}
		return in.equals(x.T, x.V, yi.V)
	case *ssa.Function:
		// only nil comparisons are legal
		if yf, ok := y.(*ssa.Function); ok {
			return x == yf
		}
		return false // closure or builtin vs nil func
	case *Closure:
		if yf, ok := y.(*ssa.Function); ok && yf == nil {
			return false
		}
		if yc, ok := y.(*Closure); ok {
			return x == yc
		}
		return false
	case *ssa.Builtin:
		return false
	case []Value:
		// slice == nil
		if ys, ok := y.([]Value); ok {
			if ys == nil {
				return x == nil
			}
			if x == nil {
				return ys == nil
			}
		}
		panic(runtimeError("comparing uncomparable slices"))
	case *Map:
		ym := y.(*Map)
		if ym == nil || x == nil {
			return x == ym
		}
		panic(runtimeError("comparing uncomparable maps"))
	}
	panic(fmt.Sprintf("equals: unhandled %T vs %T for type %v", x, y, t))
}

// ---------------------------------------------------------------------
// strings

func (in *Interp) strEq(x, y Value) Value {
	_, xo := x.(OStr)
	_, yo := y.(OStr)
	if xo || yo {
		return fromTerm(in.ctx.Eq(in.seqTerm(x), in.seqTerm(y)))
	}
	if sx, ok := x.(string); ok {
		if sy, ok := y.(string); ok {
			return sx == sy
		}
	}
	bx, _ := strBytes(x)
	by, _ := strBytes(y)
	if len(bx) != len(by) {
		return false
	}
	conj := make([]*smt.Term, 0, len(bx))
	for i := range bx {
		cx, xc := bx[i].(Int)
		cy, yc := by[i].(Int)
		if xc && yc {
			if cx.V != cy.V {
				return false
			}
			continue
		}
		conj = append(conj, in.ctx.Eq(in.term(bx[i]), in.term(by[i])))
	}
	return fromTerm(in.ctx.And(conj...))
}

// strLess builds x < y lexicographically for concrete/exploded strings.
func (in *Interp) strLess(x, y Value, orEqual bool) Value {
	if sx, ok := x.(string); ok {
		if sy, ok := y.(string); ok {
			if orEqual {
				return sx <= sy
			}
			return sx < sy
		}
	}
	bx, okx := strBytes(x)
	by, oky := strBytes(y)
	if !okx || !oky {
		panic(unsupported("ordering comparison on opaque strings"))
	}
	c := in.ctx
	n := len(bx)
	if len(by) < n {
		n = len(by)
	}
	// result when the common prefix is equal
	var res *smt.Term
	if orEqual {
		res = c.Bool(len(bx) <= len(by))
	} else {
		res = c.Bool(len(bx) < len(by))
	}
	for i := n - 1; i >= 0; i-- {
		tx, ty := in.term(bx[i]), in.term(by[i])
		res = c.Or(c.Cmp(smt.OpULt, tx, ty), c.And(c.Eq(tx, ty), res))
	}
	return fromTerm(res)
}

func (in *Interp) strBinop(op token.Token, x, y Value) Value {
	switch op {
	case token.ADD:
		return in.strConcat(x, y)
	case token.LSS:
		return in.strLess(x, y, false)
	case token.LEQ:
		return in.strLess(x, y, true)
	case token.GTR:
		return in.strLess(y, x, false)
	case token.GEQ:
		return in.strLess(y, x, true)
	}
	panic(fmt.Sprintf("strBinop: bad op %s", op))
}

func (in *Interp) strConcat(x, y Value) Value {
	_, xo := x.(OStr)
	_, yo := y.(OStr)
	if xo || yo {
		return fromTerm(in.ctx.SeqConcat(in.seqTerm(x), in.seqTerm(y)))
	}
	if sx, ok := x.(string); ok {
		if sy, ok := y.(string); ok {
			return sx + sy
		}
	}
	bx, _ := strBytes(x)
	by, _ := strBytes(y)
	out := make([]Value, 0, len(bx)+len(by))
	out = append(out, bx...)
	out = append(out, by...)
	return mkXStr(out)
}

func (in *Interp) strLen(x Value) Value {
	switch s := x.(type) {
	case string:
		return mkInt(uint64(len(s)), 64)
	case XStr:
		return mkInt(uint64(len(s.B)), 64)
	case OStr:
		// sequence length through the solver's integer theory; lengths are
		// far below 2^63, so the 64-bit image is exact and non-negative
		t := in.ctx.SeqLen64(s.T)
		in.addPC(in.ctx.Cmp(smt.OpSLe, in.ctx.BVConst(0, 64), t))
		return SymInt{t}
	}
	checkPoison(x)
	panic(fmt.Sprintf("strLen: %T", x))
}

// strIndex returns s[i].
func (in *Interp) strIndex(s, idx Value, idxT types.Type) Value {
	b, ok := strBytes(s)
	if !ok {
		panic(unsupported("indexing an opaque string"))
	}
	if si, ok := idx.(SymInt); ok {
		// bounds check forks; in range: select
		inRange := in.inRange(si, idxT, len(b))
		if !in.decide(inRange) {
			panic(runtimeError("index out of range"))
		}
		return in.selectElem(SymElemRef{Elems: b, Idx: si.T})
	}
	i := asInt64(idx)
	if i < 0 || i >= int64(len(b)) {
		panic(runtimeError(fmt.Sprintf("index out of range [%d] with length %d", i, len(b))))
	}
	return b[i]
}

func (in *Interp) strSlice(s Value, lo, hi int) Value {
	switch x := s.(type) {
	case string:
		return x[lo:hi]
	case XStr:
		return mkXStr(x.B[lo:hi])
	}
	panic(unsupported("slicing an opaque string"))
}

// ---------------------------------------------------------------------
// conversions

func (in *Interp) conv(tDst, tSrc types.Type, x Value) Value {
	checkPoison(x)
	utSrc := tSrc.Underlying()
	utDst := tDst.Underlying()

	switch utSrc := utSrc.(type) {
	case *types.Pointer:
		if b, ok := utDst.(*types.Basic); ok && b.Kind() == types.UnsafePointer {
			panic(unsupported("conversion to unsafe.Pointer"))
		}
	case *types.Slice:
		// []byte or []rune -> string
		eb, ok := utSrc.Elem().Underlying().(*types.Basic)
		if !ok {
			break
		}
		if ob, ok := x.(OBytes); ok && eb.Kind() == types.Byte {
			return OStr{ob.T}
		}
		xs := x.([]Value)
		switch eb.Kind() {
		case types.Byte:
			return mkXStr(xs)
		case types.Rune:
			var out []Value
			for _, r := range xs {
				out = append(out, in.encodeRune(r)...)
			}
			return mkXStr(out)
		}
	case *types.Basic:
		if utSrc.Kind() == types.UnsafePointer {
			panic(unsupported("conversion from unsafe.Pointer"))
		}
		// integer -> string
		if utSrc.Info()&types.IsInteger != 0 {
			if b, ok := utDst.(*types.Basic); ok && b.Kind() == types.String {
				return mkXStr(in.encodeRune(in.conv(types.Typ[types.Int32], tSrc, x)))
			}
		}
		// string -> ...
		if utSrc.Info()&types.IsString != 0 {
			switch utDst := utDst.(type) {
			case *types.Slice:
				eb := utDst.Elem().Underlying().(*types.Basic)
				switch eb.Kind() {
				case types.Byte:
					b, ok := strBytes(x)
					if !ok {
						return OBytes{x.(OStr).T}
					}
					out := make([]Value, len(b))
					copy(out, b)
					return out
				case types.Rune:
					if s, ok := x.(string); ok {
						var out []Value
						for _, r := range s {
							out = append(out, mkInt(uint64(r), 32))
						}
						return out
					}
					return in.decodeRunes(x)
				}
			case *types.Basic:
				if utDst.Info()&types.IsString != 0 {
					return x
				}
			}
			break
		}
		// numeric conversions
		if utSrc.Info()&types.IsNumeric != 0 {
			db, ok := utDst.(*types.Basic)
			if !ok {
				break
			}
			if f, ok := x.(Float); ok {
				switch {
				case db.Kind() == types.Float32:
					return Float{V: float64(float32(f.V)), W: 32}
				case db.Kind() == types.Float64:
					return Float{V: f.V, W: 64}
				case db.Info()&types.IsInteger != 0:
					w, signed, _ := intInfo(db)
					if signed {
						return mkInt(uint64(int64(f.V)), w)
					}
					return mkInt(uint64(f.V), w)
				}
				break
			}
			sw, ssigned, ok := intInfo(utSrc)
			if !ok {
				break
			}
			_ = sw
			switch {
			case db.Kind() == types.Float32 || db.Kind() == types.Float64:
				c, ok := x.(Int)
				if !ok {
					panic(unsupported("symbolic integer to float conversion"))
				}
				var v float64
				if ssigned {
					v = float64(c.Signed())
				} else {
					v = float64(c.V)
				}
				if db.Kind() == types.Float32 {
					return Float{V: float64(float32(v)), W: 32}
				}
				return Float{V: v, W: 64}
			case db.Info()&types.IsInteger != 0:
				dw, _, _ := intInfo(db)
				switch c := x.(type) {
				case Int:
					if ssigned {
						return mkInt(uint64(c.Signed()), dw)
					}
					return mkInt(c.V, dw)
				case SymInt:
					return fromTerm(in.ctx.Resize(c.T, int(dw), ssigned))
				}
			}
		}
	}
	panic(unsupported(fmt.Sprintf("conversion %s -> %s (dynamic %T)", tSrc, tDst, x)))
}

// encodeRune UTF-8 encodes a rune value (int32) into byte values, forking
// on the encoding length when the rune is symbolic.
func (in *Interp) encodeRune(r Value) []Value {
	if c, ok := r.(Int); ok {
		rv := rune(int32(c.V))
		if c.W == 64 {
			// conversion from a wider integer: out-of-range -> U+FFFD
			if c.Signed() < 0 || c.Signed() > math.MaxInt32 {
				rv = utf8.RuneError
			} else {
				rv = rune(c.Signed())
			}
		}
		s := string(rv)
		out := make([]Value, len(s))
		for i := 0; i < len(s); i++ {
			out[i] = mkInt(uint64(s[i]), 8)
		}
		return out
	}
	c := in.ctx
	t := in.term(r)
	w := t.Sort.W
	k := func(v uint64) *smt.Term { return c.BVConst(v, w) }
	b8 := func(x *smt.Term) Value { return fromTerm(c.Extract(7, 0, x)) }
	shr := func(x *smt.Term, n uint64) *smt.Term { return c.BVBin(smt.OpBVLShr, x, k(n)) }
	and := func(x *smt.Term, m uint64) *smt.Term { return c.BVBin(smt.OpBVAnd, x, k(m)) }
	or := func(x *smt.Term, m uint64) *smt.Term { return c.BVBin(smt.OpBVOr, x, k(m)) }
	if in.decide(c.Cmp(smt.OpULt, t, k(0x80))) {
		return []Value{b8(t)}
	}
	if in.decide(c.Cmp(smt.OpULt, t, k(0x800))) {
		return []Value{b8(or(shr(t, 6), 0xC0)), b8(or(and(t, 0x3F), 0x80))}
	}
	// surrogates and out of range become U+FFFD
	bad := c.Or(c.And(c.Cmp(smt.OpULe, k(0xD800), t), c.Cmp(smt.OpULe, t, k(0xDFFF))), c.Cmp(smt.OpULt, k(0x10FFFF), t))
	if in.decide(bad) {
		return []Value{mkInt(0xEF, 8), mkInt(0xBF, 8), mkInt(0xBD, 8)}
	}
	if in.decide(c.Cmp(smt.OpULt, t, k(0x10000))) {
		return []Value{b8(or(shr(t, 12), 0xE0)), b8(or(and(shr(t, 6), 0x3F), 0x80)), b8(or(and(t, 0x3F), 0x80))}
	}
	return []Value{b8(or(shr(t, 18), 0xF0)), b8(or(and(shr(t, 12), 0x3F), 0x80)), b8(or(and(shr(t, 6), 0x3F), 0x80)), b8(or(and(t, 0x3F), 0x80))}
}

// decodeRunes converts an exploded string to a slice of runes by running
// the real utf8.DecodeRuneInString from SSA.
func (in *Interp) decodeRunes(s Value) Value {
	var out []Value
	b, ok := strBytes(s)
	if !ok {
		panic(unsupported("[]rune(opaque string)"))
	}
	for i := 0; i < len(b); {
		r, size := in.decodeRuneAt(b[i:])
		out = append(out, r)
		i += size
	}
	return out
}

func (in *Interp) decodeRuneAt(b []Value) (Value, int) {
	if c, ok := b[0].(Int); ok && c.V < utf8.RuneSelf {
		return mkInt(c.V, 32), 1
	}
	// concrete prefix long enough?
	allc := true
	n := len(b)
	if n > 4 {
		n = 4
	}
	bs := make([]byte, 0, 4)
	for i := 0; i < n; i++ {
		c, ok := b[i].(Int)
		if !ok {
			allc = false
			break
		}
		bs = append(bs, byte(c.V))
	}
	if allc {
		r, sz := utf8.DecodeRune(bs)
		return mkInt(uint64(r), 32), sz
	}
	fn := in.prog.lookupFunc("unicode/utf8", "DecodeRuneInString")
	res := in.call(nil, token.NoPos, fn, []Value{mkXStr(b)}).(Tuple)
	return res[0], int(asInt64(res[1]))
}

func (in *Interp) typeAssert(instr *ssa.TypeAssert, itf Iface) Value {
	var v Value
	err := ""
	if itf.T == nil {
		err = fmt.Sprintf("interface conversion: interface is nil, not %s", instr.AssertedType)
	} else if idst, ok := instr.AssertedType.Underlying().(*types.Interface); ok {
		v = itf
		if meth, _ := types.MissingMethod(itf.T, idst, true); meth != nil {
			err = fmt.Sprintf("interface conversion: %v is not %v: missing method %s", itf.T, instr.AssertedType, meth.Name())
		}
	} else if types.Identical(itf.T, instr.AssertedType) {
		v = itf.V
	} else {
		err = fmt.Sprintf("interface conversion: interface is %s, not %s", itf.T, instr.AssertedType)
	}
	if err != "" {
		if !instr.CommaOk {
			panic(runtimeError(err))
		}
		return Tuple{zero(instr.AssertedType), false}
	}
	if instr.CommaOk {
		return Tuple{v, true}
	}
	return v
}
