package sym

import (
	"fmt"
	"go/token"
	"go/types"
	"mime"
	"net/textproto"
	"strings"

	"golang.org/x/tools/go/ssa"

	"verif/engine/smt"
)

// An intrinsic replaces a function. It returns handled=false to fall back
// to interpreting the function's own SSA body.
type intrinsic func(in *Interp, fr *frame, args []Value) (Value, bool)

var intrinsics = map[string]intrinsic{}

const vrtPkg = "github.com/emersion/go-webdav/internal/zz_verifrt"

func init() {
	// ---- strings / bytealg -------------------------------------------
	intrinsics["strings.Index"] = func(in *Interp, fr *frame, a []Value) (Value, bool) { return in.strIndexOf(a[0], a[1]), true }
	intrinsics["strings.IndexByte"] = func(in *Interp, fr *frame, a []Value) (Value, bool) { return in.indexByte(a[0], a[1]), true }
	intrinsics["internal/bytealg.IndexByteString"] = intrinsics["strings.IndexByte"]
	intrinsics["internal/bytealg.IndexString"] = intrinsics["strings.Index"]
	intrinsics["internal/stringslite.Index"] = intrinsics["strings.Index"]
	intrinsics["internal/stringslite.IndexByte"] = intrinsics["strings.IndexByte"]
	intrinsics["internal/bytealg.IndexByte"] = func(in *Interp, fr *frame, a []Value) (Value, bool) {
		return in.indexByte(mkXStr(a[0].([]Value)), a[1]), true
	}
	intrinsics["bytes.IndexByte"] = intrinsics["internal/bytealg.IndexByte"]
	intrinsics["internal/bytealg.Index"] = func(in *Interp, fr *frame, a []Value) (Value, bool) {
		return in.strIndexOf(mkXStr(a[0].([]Value)), mkXStr(a[1].([]Value))), true
	}
	intrinsics["bytes.Index"] = intrinsics["internal/bytealg.Index"]
	intrinsics["strings.Contains"] = func(in *Interp, fr *frame, a []Value) (Value, bool) { return in.strContains(a[0], a[1]), true }
	intrinsics["strings.HasPrefix"] = func(in *Interp, fr *frame, a []Value) (Value, bool) { return in.strHasPrefix(a[0], a[1]), true }
	intrinsics["strings.HasSuffix"] = func(in *Interp, fr *frame, a []Value) (Value, bool) { return in.strHasSuffix(a[0], a[1]), true }
	intrinsics["internal/stringslite.HasPrefix"] = intrinsics["strings.HasPrefix"]
	intrinsics["internal/stringslite.HasSuffix"] = intrinsics["strings.HasSuffix"]
	intrinsics["strings.TrimPrefix"] = func(in *Interp, fr *frame, a []Value) (Value, bool) {
		if _, o := a[0].(OStr); !o {
			if _, o2 := a[1].(OStr); !o2 {
				if in.truth(in.strHasPrefix(a[0], a[1])) {
					n := int(asInt64(in.strLen(a[1])))
					l := int(asInt64(in.strLen(a[0])))
					return in.strSlice(a[0], n, l), true
				}
				return a[0], true
			}
		}
		panic(unsupported("strings.TrimPrefix on an opaque string"))
	}
	intrinsics["strings.TrimSuffix"] = func(in *Interp, fr *frame, a []Value) (Value, bool) {
		if _, o := a[0].(OStr); !o {
			if _, o2 := a[1].(OStr); !o2 {
				if in.truth(in.strHasSuffix(a[0], a[1])) {
					n := int(asInt64(in.strLen(a[1])))
					l := int(asInt64(in.strLen(a[0])))
					return in.strSlice(a[0], 0, l-n), true
				}
				return a[0], true
			}
		}
		panic(unsupported("strings.TrimSuffix on an opaque string"))
	}
	intrinsics["internal/stringslite.TrimPrefix"] = intrinsics["strings.TrimPrefix"]
	intrinsics["internal/stringslite.TrimSuffix"] = intrinsics["strings.TrimSuffix"]
	intrinsics["strings.Count"] = func(in *Interp, fr *frame, a []Value) (Value, bool) { return in.strCount(a[0], a[1]), true }
	intrinsics["internal/bytealg.CountString"] = func(in *Interp, fr *frame, a []Value) (Value, bool) {
		return in.strCount(a[0], mkXStr([]Value{a[1]})), true
	}
	intrinsics["internal/bytealg.Count"] = func(in *Interp, fr *frame, a []Value) (Value, bool) {
		return in.strCount(mkXStr(a[0].([]Value)), mkXStr([]Value{a[1]})), true
	}
	intrinsics["internal/bytealg.MakeNoZero"] = func(in *Interp, fr *frame, a []Value) (Value, bool) {
		n := int(asInt64(a[0]))
		s := make([]Value, n)
		for i := range s {
			s[i] = Int{W: 8}
		}
		return s, true
	}
	ident := func(in *Interp, fr *frame, a []Value) (Value, bool) { return a[0], true }
	intrinsics["internal/stringslite.Clone"] = ident
	intrinsics["strings.Clone"] = ident
	intrinsics["(*strings.Builder).copyCheck"] = func(in *Interp, fr *frame, a []Value) (Value, bool) { return nil, true }
	intrinsics["(*strings.Builder).String"] = func(in *Interp, fr *frame, a []Value) (Value, bool) {
		b := (*a[0].(*Value)).(Struct)
		buf, _ := b[1].([]Value)
		return mkXStr(buf), true
	}
	intrinsics["(*strings.Builder).grow"] = func(in *Interp, fr *frame, a []Value) (Value, bool) {
		p := a[0].(*Value)
		b := (*p).(Struct)
		buf, _ := b[1].([]Value)
		n := int(asInt64(a[1]))
		nb := make([]Value, len(buf), 2*cap(buf)+n)
		copy(nb, buf)
		b[1] = nb
		return nil, true
	}

	// ---- errors -------------------------------------------------------
	intrinsics["errors.Is"] = func(in *Interp, fr *frame, a []Value) (Value, bool) { return in.errorsIs(fr, a[0], a[1]), true }
	intrinsics["errors.As"] = func(in *Interp, fr *frame, a []Value) (Value, bool) { return in.errorsAs(fr, a[0], a[1]), true }

	// ---- sync: single-threaded execution ---------------------------------
	nop := func(in *Interp, fr *frame, a []Value) (Value, bool) { return nil, true }
	for _, n := range []string{"runtime.SetFinalizer", "runtime.KeepAlive", "runtime.GC",
		"internal/race.Acquire", "internal/race.Release", "internal/race.ReleaseMerge", "internal/race.Disable", "internal/race.Enable",
		"internal/race.Read", "internal/race.Write", "internal/race.ReadRange", "internal/race.WriteRange"} {
		intrinsics[n] = nop
	}
	intrinsics["(*sync.Mutex).TryLock"] = func(in *Interp, fr *frame, a []Value) (Value, bool) { return true, true }
	// ---- native helpers on concrete arguments ---------------------------
	intrinsics["net/textproto.CanonicalMIMEHeaderKey"] = func(in *Interp, fr *frame, a []Value) (Value, bool) {
		if s, ok := a[0].(string); ok {
			return textproto.CanonicalMIMEHeaderKey(s), true
		}
		panic(unsupported("CanonicalMIMEHeaderKey of a symbolic header name"))
	}
	intrinsics["net/http.CanonicalHeaderKey"] = intrinsics["net/textproto.CanonicalMIMEHeaderKey"]
	intrinsics["mime.TypeByExtension"] = func(in *Interp, fr *frame, a []Value) (Value, bool) {
		if s, ok := a[0].(string); ok {
			// only the built-in table: the host's mime.types files are not consulted
			return builtinMIME(s), true
		}
		panic(unsupported("mime.TypeByExtension of a symbolic extension"))
	}
	intrinsics["mime.ParseMediaType"] = func(in *Interp, fr *frame, a []Value) (Value, bool) {
		if s, ok := a[0].(string); ok {
			t, params, err := mime.ParseMediaType(s)
			m := newMap(types.Typ[types.String])
			for k, v := range params {
				m.insert(in, k, v)
			}
			var e Value = Iface{}
			if err != nil {
				e = in.newError(err.Error())
			}
			return Tuple{t, m, e}, true
		}
		panic(unsupported("mime.ParseMediaType of a symbolic value (needs a stub)"))
	}

	// ---- verification runtime -------------------------------------------
	intrinsics[vrtPkg+".Symbolic"] = func(in *Interp, fr *frame, a []Value) (Value, bool) { return true, true }
	intrinsics[vrtPkg+".Bool"] = func(in *Interp, fr *frame, a []Value) (Value, bool) {
		name := in.freshName(a[0].(string))
		t := in.ctx.Var(name, smt.BoolSort)
		in.inputs = append(in.inputs, inputVar{Name: name, Kind: "bool", Terms: []*smt.Term{t}})
		return SymBool{t}, true
	}
	mkIntIn := func(w int) intrinsic {
		return func(in *Interp, fr *frame, a []Value) (Value, bool) {
			name := in.freshName(a[0].(string))
			t := in.ctx.Var(name, smt.BV(w))
			in.inputs = append(in.inputs, inputVar{Name: name, Kind: "int", Terms: []*smt.Term{t}, W: w})
			return SymInt{t}, true
		}
	}
	intrinsics[vrtPkg+".Int"] = mkIntIn(64)
	intrinsics[vrtPkg+".Int64"] = mkIntIn(64)
	intrinsics[vrtPkg+".Uint"] = mkIntIn(64)
	intrinsics[vrtPkg+".Int32"] = mkIntIn(32)
	intrinsics[vrtPkg+".Byte"] = mkIntIn(8)
	intrinsics[vrtPkg+".IntRange"] = func(in *Interp, fr *frame, a []Value) (Value, bool) {
		name := in.freshName(a[0].(string))
		t := in.ctx.Var(name, smt.BV(64))
		in.inputs = append(in.inputs, inputVar{Name: name, Kind: "int", Terms: []*smt.Term{t}, W: 64})
		lo, hi := in.term(a[1]), in.term(a[2])
		if lo.Op == smt.OpBVConst && hi.Op == smt.OpBVConst && int64(lo.Val) <= int64(hi.Val) {
			in.assumeFresh(in.ctx.And(in.ctx.Cmp(smt.OpSLe, lo, t), in.ctx.Cmp(smt.OpSLe, t, hi)))
		} else {
			in.assume(fromTerm(in.ctx.And(in.ctx.Cmp(smt.OpSLe, lo, t), in.ctx.Cmp(smt.OpSLe, t, hi))))
		}
		return SymInt{t}, true
	}
	intrinsics[vrtPkg+".Str"] = func(in *Interp, fr *frame, a []Value) (Value, bool) {
		name := in.freshName(a[0].(string))
		t := in.ctx.Var(name, smt.SeqSort)
		in.inputs = append(in.inputs, inputVar{Name: name, Kind: "str", Terms: []*smt.Term{t}})
		return OStr{t}, true
	}
	intrinsics[vrtPkg+".StrN"] = func(in *Interp, fr *frame, a []Value) (Value, bool) {
		name := in.freshName(a[0].(string))
		n := int(asInt64(a[1]))
		iv := inputVar{Name: name, Kind: "strn"}
		b := make([]Value, n)
		for i := 0; i < n; i++ {
			t := in.ctx.Var(fmt.Sprintf("%s.%d", name, i), smt.BV(8))
			iv.Terms = append(iv.Terms, t)
			b[i] = SymInt{t}
		}
		in.inputs = append(in.inputs, iv)
		return mkXStr(b), true
	}
	intrinsics[vrtPkg+".Choose"] = func(in *Interp, fr *frame, a []Value) (Value, bool) {
		name := in.freshName(a[0].(string))
		n := int(asInt64(a[1]))
		d := in.choose(n)
		in.inputs = append(in.inputs, inputVar{Name: name, Kind: "choose", Terms: []*smt.Term{in.ctx.BVConst(uint64(d), 64)}, W: 64})
		return mkInt(uint64(d), 64), true
	}
	intrinsics[vrtPkg+".Assume"] = func(in *Interp, fr *frame, a []Value) (Value, bool) {
		in.assume(a[0])
		return nil, true
	}
	intrinsics[vrtPkg+".Assert"] = func(in *Interp, fr *frame, a []Value) (Value, bool) {
		in.check(a[0], in.concreteString(a[1]), "", fr)
		return nil, true
	}
	intrinsics[vrtPkg+".AssertKnown"] = func(in *Interp, fr *frame, a []Value) (Value, bool) {
		in.checkKnown(a[0], in.concreteString(a[1]), in.concreteString(a[2]), a[3], fr)
		return nil, true
	}
	intrinsics[vrtPkg+".Fail"] = func(in *Interp, fr *frame, a []Value) (Value, bool) {
		in.check(false, in.concreteString(a[0]), "", fr)
		return nil, true
	}
	intrinsics[vrtPkg+".Reach"] = func(in *Interp, fr *frame, a []Value) (Value, bool) {
		in.reach(in.concreteString(a[0]))
		return nil, true
	}
	intrinsics[vrtPkg+".Observe"] = func(in *Interp, fr *frame, a []Value) (Value, bool) {
		if len(in.observed) < 20 {
			in.observed = append(in.observed, in.concreteString(a[0])+"="+toString(a[1]))
		}
		return nil, true
	}
	intrinsics[vrtPkg+".Unsupported"] = func(in *Interp, fr *frame, a []Value) (Value, bool) {
		panic(unsupported("harness: " + in.concreteString(a[0])))
	}
	intrinsics[vrtPkg+".Concrete"] = func(in *Interp, fr *frame, a []Value) (Value, bool) {
		// IsConcrete(string) bool: lets stubs pick a native fallback
		_, ok := a[0].(string)
		return ok, true
	}
}

func (in *Interp) concreteString(v Value) string {
	if s, ok := v.(string); ok {
		return s
	}
	return toString(v)
}

func (in *Interp) freshName(base string) string {
	k := in.nameCount[base]
	in.nameCount[base] = k + 1
	if k == 0 {
		return base
	}
	return fmt.Sprintf("%s#%d", base, k)
}

// checkKnown handles an assertion that has a listed known-finding region:
// violations inside the region are attributed to the finding, violations
// outside it are ordinary violations.
func (in *Interp) checkKnown(cond Value, msg, id string, region Value, fr *frame) {
	if !in.prog.KnownActive(id) {
		in.check(cond, msg, "", fr)
		return
	}
	// inside region: report as known (if it fails), outside: must hold
	c := in.ctx
	ct, rt := in.boolTerm(cond), in.boolTerm(region)
	// obligation 1: region ∧ ¬cond satisfiable? -> known finding still reproduces
	in.asserts++
	as := append(append([]*smt.Term{}, in.pc...), rt, c.Not(ct))
	r, m, err := in.solver.Check(as, in.inputTerms())
	in.stats.mu.Lock()
	in.stats.OblQ++
	in.stats.mu.Unlock()
	if err != nil || r == smt.Unknown {
		in.inconclusive(fmt.Sprintf("known-finding query %q: %v %v", id, r, err))
	} else if r == smt.Sat {
		in.findings = append(in.findings, Finding{Kind: "assert", Msg: msg, KnownID: id, Decisions: append([]int{}, in.taken...), Model: in.buildModel(m), Stack: stackOf(fr)})
	}
	// obligation 2: outside the region the assertion must hold
	in.check(fromTerm(c.Or(rt, ct)), msg, "", fr)
}

// ---------------------------------------------------------------------
// string search models

func (in *Interp) matchAt(s []Value, i int, sub []Value) *smt.Term {
	c := in.ctx
	conj := make([]*smt.Term, 0, len(sub))
	for j := range sub {
		a, aok := s[i+j].(Int)
		b, bok := sub[j].(Int)
		if aok && bok {
			if a.V != b.V {
				return c.F
			}
			continue
		}
		conj = append(conj, c.Eq(in.term(s[i+j]), in.term(sub[j])))
	}
	return c.And(conj...)
}

func (in *Interp) strContains(s, sub Value) Value {
	if cs, ok := s.(string); ok {
		if csub, ok := sub.(string); ok {
			return strings.Contains(cs, csub)
		}
	}
	bs, ok1 := strBytes(s)
	bsub, ok2 := strBytes(sub)
	if !ok1 || !ok2 {
		return fromTerm(in.ctx.SeqContains(in.seqTerm(s), in.seqTerm(sub)))
	}
	if len(bsub) > len(bs) {
		return false
	}
	var dis []*smt.Term
	for i := 0; i+len(bsub) <= len(bs); i++ {
		dis = append(dis, in.matchAt(bs, i, bsub))
	}
	return fromTerm(in.ctx.Or(dis...))
}

func (in *Interp) strHasPrefix(s, pre Value) Value {
	if cs, ok := s.(string); ok {
		if cp, ok := pre.(string); ok {
			return strings.HasPrefix(cs, cp)
		}
	}
	bs, ok1 := strBytes(s)
	bp, ok2 := strBytes(pre)
	if !ok1 || !ok2 {
		return fromTerm(in.ctx.SeqPrefixOf(in.seqTerm(pre), in.seqTerm(s)))
	}
	if len(bp) > len(bs) {
		return false
	}
	return fromTerm(in.matchAt(bs, 0, bp))
}

func (in *Interp) strHasSuffix(s, suf Value) Value {
	if cs, ok := s.(string); ok {
		if cp, ok := suf.(string); ok {
			return strings.HasSuffix(cs, cp)
		}
	}
	bs, ok1 := strBytes(s)
	bp, ok2 := strBytes(suf)
	if !ok1 || !ok2 {
		return fromTerm(in.ctx.SeqSuffixOf(in.seqTerm(suf), in.seqTerm(s)))
	}
	if len(bp) > len(bs) {
		return false
	}
	return fromTerm(in.matchAt(bs, len(bs)-len(bp), bp))
}

// strIndexOf returns the first index of sub in s, forking per position.
func (in *Interp) strIndexOf(s, sub Value) Value {
	if cs, ok := s.(string); ok {
		if csub, ok := sub.(string); ok {
			return mkInt(uint64(int64(strings.Index(cs, csub))), 64)
		}
	}
	bs, ok1 := strBytes(s)
	bsub, ok2 := strBytes(sub)
	if !ok1 || !ok2 {
		// opaque operands: seq.indexof
		return SymInt{in.ctx.SeqIndex64(in.seqTerm(s), in.seqTerm(sub))}
	}
	for i := 0; i+len(bsub) <= len(bs); i++ {
		if in.decide(in.matchAt(bs, i, bsub)) {
			return mkInt(uint64(i), 64)
		}
	}
	return mkInt(^uint64(0), 64)
}

func (in *Interp) indexByte(s, c Value) Value {
	return in.strIndexOf(s, mkXStr([]Value{c}))
}

func (in *Interp) strCount(s, sub Value) Value {
	if cs, ok := s.(string); ok {
		if csub, ok := sub.(string); ok {
			return mkInt(uint64(strings.Count(cs, csub)), 64)
		}
	}
	bs, ok1 := strBytes(s)
	bsub, ok2 := strBytes(sub)
	if !ok1 || !ok2 {
		panic(unsupported("strings.Count on an opaque string"))
	}
	if len(bsub) == 0 {
		// number of runes + 1: only for concrete
		panic(unsupported("strings.Count with empty separator on a symbolic string"))
	}
	n := 0
	for i := 0; i+len(bsub) <= len(bs); {
		if in.decide(in.matchAt(bs, i, bsub)) {
			n++
			i += len(bsub)
		} else {
			i++
		}
	}
	return mkInt(uint64(n), 64)
}

// ---------------------------------------------------------------------
// errors.Is / errors.As without reflection (dynamic types are concrete)

func (in *Interp) methodOf(t types.Type, name string) *ssa.Function {
	ms := in.prog.Prog.MethodSets.MethodSet(t)
	for i := 0; i < ms.Len(); i++ {
		sel := ms.At(i)
		if sel.Obj().Name() == name {
			return in.prog.Prog.MethodValue(sel)
		}
	}
	return nil
}

func (in *Interp) unwrapOnce(fr *frame, err Iface) (single Iface, multi []Iface, has bool) {
	if err.T == nil {
		return Iface{}, nil, false
	}
	m := in.methodOf(err.T, "Unwrap")
	if m == nil {
		return Iface{}, nil, false
	}
	sig := m.Signature
	if sig.Params().Len() != 0 || sig.Results().Len() != 1 {
		return Iface{}, nil, false
	}
	res := in.call(fr, token.NoPos, m, []Value{err.V})
	switch r := res.(type) {
	case Iface:
		return r, nil, true
	case []Value:
		for _, e := range r {
			multi = append(multi, e.(Iface))
		}
		return Iface{}, multi, true
	}
	return Iface{}, nil, false
}

func (in *Interp) errorsIs(fr *frame, errV, targetV Value) Value {
	err, target := errV.(Iface), targetV.(Iface)
	if err.T == nil || target.T == nil {
		return err.T == nil && target.T == nil
	}
	comparable := types.Comparable(target.T)
	var rec func(e Iface) bool
	rec = func(e Iface) bool {
		for {
			if e.T == nil {
				return false
			}
			if comparable && types.Identical(e.T, target.T) && types.Comparable(e.T) {
				if in.truth(in.equals(e.T, e.V, target.V)) {
					return true
				}
			}
			if m := in.methodOf(e.T, "Is"); m != nil && m.Signature.Params().Len() == 1 && m.Signature.Results().Len() == 1 {
				if in.truth(in.call(fr, token.NoPos, m, []Value{e.V, target})) {
					return true
				}
			}
			single, multi, has := in.unwrapOnce(fr, e)
			if !has {
				return false
			}
			if multi != nil {
				for _, x := range multi {
					if rec(x) {
						return true
					}
				}
				return false
			}
			e = single
		}
	}
	return rec(err)
}

func (in *Interp) errorsAs(fr *frame, errV, targetV Value) Value {
	err, target := errV.(Iface), targetV.(Iface)
	if err.T == nil {
		return false
	}
	if target.T == nil {
		panic(targetPanic{in.newErrorString("errors: target cannot be nil")})
	}
	pt, ok := target.T.Underlying().(*types.Pointer)
	if !ok {
		panic(targetPanic{in.newErrorString("errors: target must be a non-nil pointer")})
	}
	tp := target.V.(*Value)
	if tp == nil {
		panic(targetPanic{in.newErrorString("errors: target must be a non-nil pointer")})
	}
	want := pt.Elem()
	_, wantIface := want.Underlying().(*types.Interface)
	var rec func(e Iface) bool
	rec = func(e Iface) bool {
		for {
			if e.T == nil {
				return false
			}
			if wantIface {
				if types.Implements(e.T, want.Underlying().(*types.Interface)) {
					*tp = e
					return true
				}
			} else if types.Identical(e.T, want) {
				store(want, tp, e.V)
				return true
			}
			if m := in.methodOf(e.T, "As"); m != nil && m.Signature.Params().Len() == 1 && m.Signature.Results().Len() == 1 {
				if in.truth(in.call(fr, token.NoPos, m, []Value{e.V, target})) {
					return true
				}
			}
			single, multi, has := in.unwrapOnce(fr, e)
			if !has {
				return false
			}
			if multi != nil {
				for _, x := range multi {
					if rec(x) {
						return true
					}
				}
				return false
			}
			e = single
		}
	}
	return rec(err)
}

// newError builds an error value of dynamic type *errors.errorString.
func (in *Interp) newError(msg Value) Value {
	ep := in.prog.Pkgs["errors"]
	if ep == nil {
		panic(unsupported("package errors not loaded"))
	}
	t := ep.Type("errorString").Object().Type()
	var cell Value = Struct{msg}
	return Iface{T: types.NewPointer(t), V: &cell}
}

func (in *Interp) newErrorString(msg string) Value { return in.newError(msg) }

func builtinMIME(ext string) string {
	// the table compiled into package mime (mime/type.go builtinTypesLower)
	m := map[string]string{
		".avif": "image/avif", ".css": "text/css; charset=utf-8", ".gif": "image/gif",
		".htm": "text/html; charset=utf-8", ".html": "text/html; charset=utf-8", ".jpeg": "image/jpeg",
		".jpg": "image/jpeg", ".js": "text/javascript; charset=utf-8", ".json": "application/json",
		".mjs": "text/javascript; charset=utf-8", ".pdf": "application/pdf", ".png": "image/png",
		".svg": "image/svg+xml", ".wasm": "application/wasm", ".webp": "image/webp", ".xml": "text/xml; charset=utf-8",
	}
	if v, ok := m[ext]; ok {
		return v
	}
	return m[strings.ToLower(ext)]
}
