// vf: bounded symbolic checking of go-webdav properties.
//
//	vf check <property-id> [--tier quick|thorough] [--only <harness>] [-v]
//	vf replay <replay-file>
package main

import (
	"bytes"
	"crypto/sha256"
	"encoding/json"
	"fmt"
	"os"
	"os/exec"
	"path/filepath"
	"sort"
	"strconv"
	"strings"
	"time"

	"verif/engine/sym"
)

const modPath = "github.com/emersion/go-webdav"

type TierCfg struct {
	Params     map[string]int `json:"params"`
	StepBudget int            `json:"step_budget"`
	ForkBudget int            `json:"fork_budget"`
	MaxPaths   int            `json:"max_paths"`
	TimeoutMs  int            `json:"timeout_ms"`
	BudgetSec  int            `json:"budget_sec"`
	Solver     string         `json:"solver"` // "" = z3 4.8.12; "z3-new" = z3 5.1.0 as the deciding solver
}

type HarnessCfg struct {
	Pkg      string            `json:"pkg"`  // "", "internal", "caldav", "carddav"
	Func     string            `json:"func"` // VerifH_...
	What     string            `json:"what"`
	Stubs    map[string]string `json:"stubs"` // real function -> stub function (in Pkg unless qualified)
	Quick    TierCfg           `json:"quick"`
	Thorough TierCfg           `json:"thorough"`
	Outside  []string          `json:"outside"`
	Assume   []string          `json:"assumptions"`
}

type CheckCfg struct {
	NativeRace bool        `json:"native_race"` // native replays are built with the Go race detector
	Title     string       `json:"title"`
	Harnesses []HarnessCfg `json:"harnesses"`
	Outside   []string     `json:"outside"`
	Assume    []string     `json:"assumptions"`
}

type KnownFinding struct {
	ID       string `json:"id"`
	Status   string `json:"status"` // known | fixed
	Property string `json:"property"`
	What     string `json:"what"`
	Commit   string `json:"commit,omitempty"`
}

var (
	verifDir = envOr("VERIF_DIR", "/verif")
	repoDir  = envOr("VERIF_REPO", "/repo")
	verbose  = false
)

func envOr(k, d string) string {
	if v := os.Getenv(k); v != "" {
		return v
	}
	return d
}

func main() {
	if len(os.Args) < 2 {
		usage()
	}
	switch os.Args[1] {
	case "check":
		os.Exit(cmdCheck(os.Args[2:]))
	case "replay":
		os.Exit(cmdReplay(os.Args[2:]))
	default:
		usage()
	}
}

func usage() {
	fmt.Fprintln(os.Stderr, "usage: vf check <id> [--tier quick|thorough] [--only harness] [-v] | vf replay <file>")
	os.Exit(2)
}

func loadChecks() (map[string]*CheckCfg, error) {
	b, err := os.ReadFile(filepath.Join(verifDir, "harness", "checks.json"))
	if err != nil {
		return nil, err
	}
	var m map[string]*CheckCfg
	if err := json.Unmarshal(b, &m); err != nil {
		return nil, fmt.Errorf("checks.json: %v", err)
	}
	return m, nil
}

func loadKnown() ([]KnownFinding, error) {
	b, err := os.ReadFile(filepath.Join(verifDir, "known_findings.json"))
	if os.IsNotExist(err) {
		return nil, nil
	}
	if err != nil {
		return nil, err
	}
	var doc struct {
		Findings []KnownFinding `json:"findings"`
	}
	if err := json.Unmarshal(b, &doc); err != nil {
		return nil, fmt.Errorf("known_findings.json: %v", err)
	}
	return doc.Findings, nil
}

func pkgImport(p string) string {
	if p == "" || p == "root" {
		return modPath
	}
	return modPath + "/" + p
}

func pkgDir(p string) string {
	if p == "" || p == "root" {
		return repoDir
	}
	return filepath.Join(repoDir, p)
}

type harnessResult struct {
	cfg        HarnessCfg
	tier       TierCfg
	res        *sym.ExploreResult
	wall       float64
	loadErr    string
	violation  []*reportedFinding
	known      map[string]*reportedFinding
	candidates map[string][]*reportedFinding
	candKeys   []string
	mismatch   []string
	witnessOK  int
	witnessNo  []string
}

type reportedFinding struct {
	f          sym.Finding
	replayPath string
	reproduced bool
	nativeMsg  string
}

func cmdCheck(args []string) int {
	if len(args) < 1 {
		usage()
	}
	id := args[0]
	tier := envOr("VERIF_TIER", "quick")
	only := ""
	for i := 1; i < len(args); i++ {
		switch args[i] {
		case "--tier":
			i++
			tier = args[i]
		case "--only":
			i++
			only = args[i]
			partialRun = true
		case "-v":
			verbose = true
		}
	}
	seed, _ := strconv.Atoi(envOr("VERIF_SEED", "0"))
	start := time.Now()
	checks, err := loadChecks()
	if err != nil {
		return inconclusive(id, tier, seed, start, "cannot load checks.json: "+err.Error())
	}
	cc := checks[id]
	if cc == nil {
		fmt.Fprintf(os.Stderr, "no check registered for %s\n", id)
		return 2
	}
	known, err := loadKnown()
	if err != nil {
		return inconclusive(id, tier, seed, start, err.Error())
	}
	knownActive := map[string]bool{}
	knownByID := map[string]KnownFinding{}
	for _, k := range known {
		knownByID[k.ID] = k
		if k.Status == "known" && k.Property == id {
			knownActive[k.ID] = true
		}
	}

	overlay, err := sym.HarnessOverlay(filepath.Join(verifDir, "harness"), repoDir)
	if err != nil {
		return inconclusive(id, tier, seed, start, err.Error())
	}
	delete(overlay, filepath.Join(repoDir, "checks.json"))
	stubs := map[string]string{}
	for _, h := range cc.Harnesses {
		for real, st := range h.Stubs {
			if !strings.Contains(st, ".") {
				st = pkgImport(h.Pkg) + "." + st
			}
			stubs[h.Func+"\x00"+real] = st
		}
	}
	t0 := time.Now()
	prog, err := sym.Load(sym.LoadConfig{RepoDir: repoDir, Patterns: []string{"./..."}, Overlay: overlay, BuildTags: []string{"verif"}})
	if err != nil {
		return inconclusive(id, tier, seed, start, "cannot load/compile /repo with the harness overlay: "+err.Error())
	}
	prog.Known = knownActive
	sym.Profile = os.Getenv("VERIF_PROFILE") != ""
	loadSec := time.Since(t0).Seconds()
	if verbose {
		fmt.Fprintf(os.Stderr, "loaded and built SSA in %.1fs\n", loadSec)
	}

	var results []*harnessResult
	for _, h := range cc.Harnesses {
		if only != "" && h.Func != only {
			continue
		}
		tc := h.Quick
		if tier == "thorough" {
			tc = mergeTier(h.Quick, h.Thorough)
		}
		hr := &harnessResult{cfg: h, tier: tc, known: map[string]*reportedFinding{}, candidates: map[string][]*reportedFinding{}}
		results = append(results, hr)
		entry, err := prog.FuncByName(pkgImport(h.Pkg) + "." + h.Func)
		if err != nil {
			hr.loadErr = err.Error()
			continue
		}
		hstubs := map[string]string{}
		for real, st := range h.Stubs {
			if !strings.Contains(st, ".") {
				st = pkgImport(h.Pkg) + "." + st
			}
			hstubs[real] = st
		}
		if err := prog.SetStubs(hstubs); err != nil {
			hr.loadErr = err.Error()
			continue
		}
		prog.Params = tc.Params
		solver2 := envOr("VERIF_SOLVER2", "z3-new")
		if solver2 == "none" {
			solver2 = ""
		}
		crossEvery := 200
		if tier == "thorough" {
			crossEvery = 20
		}
		primary := "z3"
		if tc.Solver != "" {
			primary = tc.Solver
		}
		if v := os.Getenv("VERIF_SOLVER"); v != "" {
			primary = v
		}
		if primary == solver2 {
			solver2 = "z3"
		}
		cfg := sym.ExploreConfig{Workers: 16, Solver: primary, Solver2: solver2, CrossEvery: crossEvery, TimeoutMs: def(tc.TimeoutMs, 10000), StepBudget: def(tc.StepBudget, 2000000), ForkBudget: def(tc.ForkBudget, 400), MaxPaths: tc.MaxPaths}
		if n, _ := strconv.Atoi(os.Getenv("VERIF_WORKERS")); n > 0 {
			cfg.Workers = n
		}
		if n, _ := strconv.Atoi(os.Getenv("VERIF_MAXPATHS")); n > 0 {
			cfg.MaxPaths = n
		}
		bs := tc.BudgetSec
		if bs == 0 {
			// per harness; generous, so that a loaded machine does not turn
			// a complete exploration into an inconclusive one
			bs = 3000
			if tier == "thorough" {
				bs = 7200
			}
		}
		cfg.Deadline = time.Now().Add(time.Duration(bs) * time.Second)
		if verbose {
			cfg.Progress = os.Stderr
		}
		hs := time.Now()
		res, err := sym.Explore(prog, entry, cfg)
		hr.wall = time.Since(hs).Seconds()
		if err != nil {
			hr.loadErr = err.Error()
			continue
		}
		hr.res = res
		if os.Getenv("VERIF_PROFILE") != "" {
			type kv struct {
				k string
				v int
			}
			var l []kv
			for k, v := range sym.ProfileQueries {
				l = append(l, kv{k, v})
			}
			sort.Slice(l, func(i, j int) bool { return l[i].v > l[j].v })
			for i, e := range l {
				if i < 40 {
					fmt.Fprintf(os.Stderr, "  profile %7d %s\n", e.v, e.k)
				}
			}
		}
		if verbose {
			st := res.Stats
			fmt.Fprintf(os.Stderr, "%s: paths=%d completed=%d pruned=%d asserts=%d sym=%d discharged=%d findings=%d inconcl=%d feasQ=%d oblQ=%d solver=%.1fs wall=%.1fs maxsteps=%d\n",
				h.Func, st.Paths, st.Completed, st.Pruned, st.Asserts, st.SymAsserts, st.Discharged, len(st.Findings), len(st.Inconcl), st.FeasQ, st.OblQ, st.SolverTime.Seconds(), hr.wall, st.MaxSteps)
			for _, m := range st.Inconcl {
				fmt.Fprintln(os.Stderr, "   inconclusive:", m)
			}
			for i, f := range st.Findings {
				if i < 8 {
					mj, _ := json.Marshal(f.Model)
					fmt.Fprintf(os.Stderr, "   finding: %s known=%q %s\n      decisions=%v\n      stack=%s\n", f.Msg, f.KnownID, mj, f.Decisions, f.Stack)
					if len(f.Observed) > 0 {
						fmt.Fprintf(os.Stderr, "      observed=%v\n", f.Observed)
					}
				}
			}
		}
	}

	// ---- replay findings and witnesses natively ------------------------
	replayDir := filepath.Join(verifDir, "replays", id)
	os.MkdirAll(replayDir, 0o755)
	type job struct {
		hr      *harnessResult
		rf      *reportedFinding
		witness bool
		file    string
	}
	var jobs []*job
	for _, hr := range results {
		if hr.res == nil {
			continue
		}
		// up to five candidate counterexamples per (msg, knownID), smallest
		// decision lists first; the first one that reproduces natively is
		// the one reported
		for _, f := range hr.res.Stats.Findings {
			key := f.Msg + "\x00" + f.KnownID
			rf := &reportedFinding{f: f}
			rf.replayPath = writeReplay(replayDir, id, hr, f.Model, f.Msg, f.KnownID, f.Decisions)
			hr.candidates[key] = append(hr.candidates[key], rf)
			hr.candKeys = appendUnique(hr.candKeys, key)
			jobs = append(jobs, &job{hr: hr, rf: rf, file: rf.replayPath})
		}
		nw := 6
		if tier == "thorough" {
			nw = 30
		}
		for i, wm := range hr.res.Stats.WitnessMods {
			if i >= nw {
				break
			}
			label, _ := wm["@label"].(string)
			p := writeReplay(filepath.Join(verifDir, ".work", fmt.Sprintf("witness-%d", os.Getpid()), id), id, hr, wm, "witness:"+label, "", nil)
			jobs = append(jobs, &job{hr: hr, witness: true, file: p})
		}
	}
	if len(jobs) > 0 {
		byPkg := map[string][]*job{}
		for _, j := range jobs {
			byPkg[j.hr.cfg.Pkg] = append(byPkg[j.hr.cfg.Pkg], j)
		}
		for pkg, js := range byPkg {
			var files []string
			for _, j := range js {
				files = append(files, j.file)
			}
			out, err := nativeReplay(pkg, files, cc)
			if err != nil {
				for _, j := range js {
					j.hr.mismatch = append(j.hr.mismatch, "native replay could not run: "+err.Error())
				}
				continue
			}
			for _, j := range js {
				r, ok := out[j.file]
				if !ok {
					j.hr.mismatch = append(j.hr.mismatch, "no native replay result for "+j.file)
					continue
				}
				failed := len(r.Failures) > 0 || r.Panic != ""
				if j.witness {
					// a witness path passed every assertion symbolically;
					// the native run must not fail either (translator validation)
					if failed && !strings.Contains(strings.Join(r.Failures, " "), "[known:") {
						j.hr.witnessNo = append(j.hr.witnessNo, fmt.Sprintf("%s: native run fails: %v %s", j.file, r.Failures, r.Panic))
					} else if r.Skipped != "" {
						j.hr.witnessNo = append(j.hr.witnessNo, fmt.Sprintf("%s: native run skipped: %s", j.file, r.Skipped))
					} else {
						j.hr.witnessOK++
					}
					continue
				}
				j.rf.reproduced = failed
				j.rf.nativeMsg = strings.Join(r.Failures, "; ") + r.Panic + r.Skipped
			}
		}
	}

	for _, hr := range results {
		for _, key := range hr.candKeys {
			cands := hr.candidates[key]
			chosen := cands[0]
			for _, c := range cands {
				if c.reproduced {
					chosen = c
					break
				}
			}
			for _, c := range cands {
				if c != chosen && c.replayPath != chosen.replayPath {
					os.Remove(c.replayPath)
				}
			}
			if chosen.f.KnownID != "" {
				hr.known[chosen.f.KnownID+"\x00"+chosen.f.Msg] = chosen
			} else {
				hr.violation = append(hr.violation, chosen)
			}
		}
	}

	// ---- verdict ----------------------------------------------------------
	exit := 0
	var lines []string
	violations := 0
	var inconcl []string
	staleSeen := map[string]bool{}
	for _, hr := range results {
		if hr.loadErr != "" {
			inconcl = append(inconcl, hr.cfg.Func+": "+hr.loadErr)
			continue
		}
		st := hr.res.Stats
		for _, m := range st.Inconcl {
			inconcl = append(inconcl, hr.cfg.Func+": "+m)
		}
		if !hr.res.Exhausted {
			inconcl = append(inconcl, hr.cfg.Func+": exploration cut: "+hr.res.CutReason)
		}
		if st.Asserts == 0 {
			inconcl = append(inconcl, hr.cfg.Func+": vacuous: no assertion reached on any path")
		}
		if len(st.Witnesses) == 0 {
			inconcl = append(inconcl, hr.cfg.Func+": vacuous: no reachability witness")
		}
		for _, m := range hr.mismatch {
			inconcl = append(inconcl, hr.cfg.Func+": "+m)
		}
		for _, m := range hr.witnessNo {
			inconcl = append(inconcl, hr.cfg.Func+": ENCODING-MISMATCH (witness) "+m)
		}
		for _, v := range hr.violation {
			if v.reproduced {
				violations++
				lines = append(lines, fmt.Sprintf("VIOLATION property=%s replay=%s", id, v.replayPath))
				lines = append(lines, fmt.Sprintf("  harness=%s obligation=%q native=%q", hr.cfg.Func, v.f.Msg, v.nativeMsg))
			} else {
				inconcl = append(inconcl, fmt.Sprintf("%s: ENCODING-MISMATCH: counterexample for %q does not reproduce natively (%s) replay=%s", hr.cfg.Func, v.f.Msg, v.nativeMsg, v.replayPath))
			}
		}
		for key, rf := range hr.known {
			kid := strings.SplitN(key, "\x00", 2)[0]
			staleSeen[kid] = true
			if rf.reproduced {
				lines = append(lines, fmt.Sprintf("KNOWN-FINDING: property=%s %s: %s (obligation %q, replay=%s)", id, kid, knownByID[kid].What, rf.f.Msg, rf.replayPath))
			} else {
				inconcl = append(inconcl, fmt.Sprintf("%s: known finding %s: solver witness does not reproduce natively (%s)", hr.cfg.Func, kid, rf.nativeMsg))
			}
		}
	}
	if only == "" {
		for kid := range knownActive {
			if !staleSeen[kid] {
				lines = append(lines, fmt.Sprintf("STALE-FINDING: property=%s %s no longer fails inside its listed region (entry can be pruned)", id, kid))
			}
		}
	}
	sort.Strings(inconcl)
	{
		var d []string
		for i, m := range inconcl {
			if i == 0 || m != inconcl[i-1] {
				d = append(d, m)
			}
		}
		inconcl = d
	}
	switch {
	case violations > 0:
		exit = 1
	case len(inconcl) > 0:
		exit = 2
	}
	for _, l := range lines {
		fmt.Println(l)
	}
	for _, m := range inconcl {
		fmt.Printf("INCONCLUSIVE property=%s reason=%s\n", id, m)
	}
	if !verbose {
		os.RemoveAll(filepath.Join(verifDir, ".work", fmt.Sprintf("witness-%d", os.Getpid())))
	}
	wall := time.Since(start).Seconds()
	writeEvidence(id, tier, seed, cc, results, violations, inconcl, lines, wall, loadSec)
	fmt.Printf("%s %s: %d harnesses, %d violations, %d inconclusive items, %.1fs (exit %d)\n", id, tier, len(results), violations, len(inconcl), wall, exit)
	return exit
}

func def(v, d int) int {
	if v == 0 {
		return d
	}
	return v
}

func mergeTier(q, t TierCfg) TierCfg {
	out := q
	if t.Params != nil {
		out.Params = map[string]int{}
		for k, v := range q.Params {
			out.Params[k] = v
		}
		for k, v := range t.Params {
			out.Params[k] = v
		}
	}
	if t.StepBudget != 0 {
		out.StepBudget = t.StepBudget
	}
	if t.ForkBudget != 0 {
		out.ForkBudget = t.ForkBudget
	}
	if t.MaxPaths != 0 {
		out.MaxPaths = t.MaxPaths
	}
	if t.TimeoutMs != 0 {
		out.TimeoutMs = t.TimeoutMs
	} else {
		out.TimeoutMs = 60000
	}
	if t.BudgetSec != 0 {
		out.BudgetSec = t.BudgetSec
	}
	return out
}

func inconclusive(id, tier string, seed int, start time.Time, msg string) int {
	fmt.Printf("INCONCLUSIVE property=%s reason=%s\n", id, msg)
	ev := map[string]interface{}{
		"property_id": id, "tier": tier, "seed": seed, "level": "model_checking",
		"coverage": map[string]interface{}{"evaluations": 1, "distinct_nontrivial": 0, "explanation": "run was inconclusive before exploration: " + msg, "samples": []interface{}{msg}},
		"wall_s":   time.Since(start).Seconds(), "violations": 0,
	}
	b, _ := json.MarshalIndent(ev, "", " ")
	evDir := evidenceDir()
	os.MkdirAll(evDir, 0o755)
	os.WriteFile(filepath.Join(evDir, id+".json"), b, 0o644)
	return 2
}

func writeReplay(dir, id string, hr *harnessResult, model map[string]interface{}, msg, knownID string, decisions []int) string {
	os.MkdirAll(dir, 0o755)
	doc := map[string]interface{}{
		"property": id, "pkg": hr.cfg.Pkg, "harness": hr.cfg.Func, "obligation": msg, "known_id": knownID,
		"decisions": decisions, "values": model, "params": hr.tier.Params,
	}
	b, _ := json.MarshalIndent(doc, "", " ")
	h := sha256.Sum256(b)
	p := filepath.Join(dir, fmt.Sprintf("%s-%x.json", hr.cfg.Func, h[:6]))
	os.WriteFile(p, b, 0o644)
	return p
}

type nativeResult struct {
	File     string   `json:"file"`
	Failures []string `json:"failures"`
	Skipped  string   `json:"skipped"`
	Panic    string   `json:"panic"`
}

// nativeReplay runs the harness functions natively (go test with the
// harness overlay against /repo's working tree) for the given replay files.
func nativeReplay(pkg string, files []string, cc *CheckCfg) (map[string]nativeResult, error) {
	work := filepath.Join(verifDir, ".work", fmt.Sprintf("replay-%d", os.Getpid()))
	os.MkdirAll(work, 0o755)
	defer os.RemoveAll(work)
	overlay, err := sym.HarnessOverlay(filepath.Join(verifDir, "harness"), repoDir)
	if err != nil {
		return nil, err
	}
	// harness function table for this package
	names := harnessFuncs(pkg)
	var sb strings.Builder
	pname := "webdav"
	if pkg != "" && pkg != "root" {
		pname = filepath.Base(pkg)
	}
	fmt.Fprintf(&sb, "//go:build verif\n\npackage %s\n\nimport (\n\t\"encoding/json\"\n\t\"fmt\"\n\t\"os\"\n\t\"path/filepath\"\n\t\"testing\"\n\n\tvrt \"%s/internal/zz_verifrt\"\n)\n\n", pname, modPath)
	sb.WriteString("var verifHarnessTable = map[string]func(){\n")
	for _, n := range names {
		fmt.Fprintf(&sb, "\t%q: %s,\n", n, n)
	}
	sb.WriteString("}\n\n")
	sb.WriteString(`func verifRaceLogSize() int64 {
	p := os.Getenv("VERIF_RACE_LOG")
	if p == "" {
		return 0
	}
	var n int64
	ms, _ := filepath.Glob(p + "*")
	for _, m := range ms {
		if fi, err := os.Stat(m); err == nil {
			n += fi.Size()
		}
	}
	return n
}

func TestVerifReplay(t *testing.T) {
	b, err := os.ReadFile(os.Getenv("VERIF_REPLAY_LIST"))
	if err != nil {
		t.Fatal(err)
	}
	var files []string
	if err := json.Unmarshal(b, &files); err != nil {
		t.Fatal(err)
	}
	for _, f := range files {
		rb, err := os.ReadFile(f)
		if err != nil {
			t.Fatal(err)
		}
		var doc struct {
			Harness string ` + "`json:\"harness\"`" + `
		}
		json.Unmarshal(rb, &doc)
		h := verifHarnessTable[doc.Harness]
		res := map[string]interface{}{"file": f}
		if h == nil {
			res["panic"] = "unknown harness " + doc.Harness
		} else {
			os.Setenv("VERIF_REPLAY", f)
			before := verifRaceLogSize()
			failures, skipped, p := vrt.Run(h)
			if verifRaceLogSize() > before {
				failures = append(failures, "data race reported by the Go race detector")
			}
			res["failures"] = failures
			res["skipped"] = skipped
			if p != nil {
				res["panic"] = fmt.Sprintf("panic: %v", p)
			}
		}
		out, _ := json.Marshal(res)
		fmt.Printf("VERIF-REPLAY %s\n", out)
	}
}
`)
	testFile := filepath.Join(work, "zz_verif_replay_"+strings.ReplaceAll(pname, "/", "_")+"_test.go")
	if err := os.WriteFile(testFile, []byte(sb.String()), 0o644); err != nil {
		return nil, err
	}
	overlay[filepath.Join(pkgDir(pkg), "zz_verif_replay_test.go")] = testFile
	ov := map[string]map[string]string{"Replace": overlay}
	ob, _ := json.Marshal(ov)
	ovFile := filepath.Join(work, "overlay_"+pname+".json")
	os.WriteFile(ovFile, ob, 0o644)
	lb, _ := json.Marshal(files)
	listFile := filepath.Join(work, "list_"+pname+".json")
	os.WriteFile(listFile, lb, 0o644)

	goArgs := []string{"test", "-tags", "verif", "-vet=off", "-count=1", "-overlay", ovFile, "-run", "^TestVerifReplay$", "-v", "-timeout", "600s"}
	raceLog := ""
	if cc != nil && cc.NativeRace {
		// the property speaks of data races: the native side runs under the
		// Go race detector, whose reports go to a log the test watches
		goArgs = append(goArgs, "-race")
		raceLog = filepath.Join(work, "racelog")
	}
	goArgs = append(goArgs, ".")
	cmd := exec.Command("go", goArgs...)
	cmd.Dir = pkgDir(pkg)
	cmd.Env = append(os.Environ(), "GOFLAGS=-mod=readonly", "GOPROXY=off", "GOSUMDB=off", "GOTOOLCHAIN=local", "VERIF_REPLAY_LIST="+listFile)
	if raceLog != "" {
		cmd.Env = append(cmd.Env, "VERIF_RACE_LOG="+raceLog, "GORACE=log_path="+raceLog+" halt_on_error=0")
	}
	var outb bytes.Buffer
	cmd.Stdout = &outb
	cmd.Stderr = &outb
	runErr := cmd.Run()
	res := map[string]nativeResult{}
	for _, line := range strings.Split(outb.String(), "\n") {
		line = strings.TrimSpace(line)
		if i := strings.Index(line, "VERIF-REPLAY "); i >= 0 {
			var r nativeResult
			if json.Unmarshal([]byte(line[i+len("VERIF-REPLAY "):]), &r) == nil {
				res[r.File] = r
			}
		}
	}
	if len(res) == 0 && runErr != nil {
		o := outb.String()
		if len(o) > 1500 {
			o = o[:1500]
		}
		return nil, fmt.Errorf("%v: %s", runErr, o)
	}
	return res, nil
}

// harnessFuncs lists the VerifH_ entry points declared in the overlay
// files of a package.
func harnessFuncs(pkg string) []string {
	dir := filepath.Join(verifDir, "harness", pkg)
	if pkg == "" {
		dir = filepath.Join(verifDir, "harness", "root")
	}
	var names []string
	ents, _ := os.ReadDir(dir)
	for _, e := range ents {
		if e.IsDir() || !strings.HasSuffix(e.Name(), ".go") {
			continue
		}
		b, _ := os.ReadFile(filepath.Join(dir, e.Name()))
		for _, line := range strings.Split(string(b), "\n") {
			if strings.HasPrefix(line, "func VerifH_") {
				n := strings.TrimPrefix(line, "func ")
				if i := strings.Index(n, "("); i > 0 {
					names = append(names, n[:i])
				}
			}
		}
	}
	sort.Strings(names)
	return names
}

func cmdReplay(args []string) int {
	if len(args) < 1 {
		usage()
	}
	b, err := os.ReadFile(args[0])
	if err != nil {
		fmt.Fprintln(os.Stderr, err)
		return 2
	}
	var doc struct {
		Pkg        string `json:"pkg"`
		Harness    string `json:"harness"`
		Property   string `json:"property"`
		Obligation string `json:"obligation"`
	}
	if err := json.Unmarshal(b, &doc); err != nil {
		fmt.Fprintln(os.Stderr, err)
		return 2
	}
	abs, _ := filepath.Abs(args[0])
	var rcc *CheckCfg
	if checks, err := loadChecks(); err == nil {
		rcc = checks[doc.Property]
	}
	out, err := nativeReplay(doc.Pkg, []string{abs}, rcc)
	if err != nil {
		fmt.Fprintln(os.Stderr, "replay could not run:", err)
		return 2
	}
	r := out[abs]
	fmt.Printf("replay %s harness=%s obligation=%q\n", abs, doc.Harness, doc.Obligation)
	fmt.Printf("  failures=%v panic=%q skipped=%q\n", r.Failures, r.Panic, r.Skipped)
	if len(r.Failures) > 0 || r.Panic != "" {
		fmt.Printf("VIOLATION property=%s replay=%s\n", doc.Property, abs)
		return 1
	}
	fmt.Println("does not reproduce on the current tree")
	return 0
}

func writeEvidence(id, tier string, seed int, cc *CheckCfg, results []*harnessResult, violations int, inconcl, lines []string, wall, loadSec float64) {
	states, transitions, traces, obligations, discharged := 0, 0, 0, 0, 0
	feasQ, oblQ := 0, 0
	crossQ, crossAgree := 0, 0
	solverTime := 0.0
	funcs := map[string]int{}
	stubs := map[string]int{}
	intr := map[string]int{}
	var samples []interface{}
	var harnessInfo []interface{}
	exhaustive := true
	witnesses := 0
	var bounds []interface{}
	assumptions := append([]string{}, cc.Assume...)
	outside := append([]string{}, cc.Outside...)
	for _, hr := range results {
		if hr.res == nil {
			exhaustive = false
			continue
		}
		st := hr.res.Stats
		states += st.Completed
		transitions += st.Decisions
		traces += hr.witnessOK
		obligations += st.Asserts
		discharged += st.Discharged + (st.Asserts - st.SymAsserts)
		feasQ += st.FeasQ
		oblQ += st.OblQ
		crossQ += st.CrossQ
		crossAgree += st.CrossAgree
		solverTime += st.SolverTime.Seconds()
		for f, n := range st.Funcs {
			funcs[f] = n
		}
		for f, n := range st.Stubs {
			stubs[f] += n
		}
		for f, n := range st.Intrinsics {
			intr[f] += n
		}
		if !hr.res.Exhausted || len(st.Inconcl) > 0 {
			exhaustive = false
		}
		nw := 0
		for _, c := range st.Witnesses {
			nw += c
		}
		witnesses += nw
		for i, s := range st.Samples {
			if i < 4 {
				samples = append(samples, map[string]interface{}{"harness": hr.cfg.Func, "decisions": s.Decisions, "outcome": s.Outcome, "instructions": s.Steps, "obligations_on_path": s.Asserts, "observed": s.Observed})
			}
		}
		for i, v := range hr.violation {
			traces++
			if i < 3 {
				samples = append(samples, map[string]interface{}{"harness": hr.cfg.Func, "counterexample_for": v.f.Msg, "model": v.f.Model, "reproduced_natively": v.reproduced, "replay": v.replayPath})
			}
		}
		for k, v := range hr.known {
			traces++
			samples = append(samples, map[string]interface{}{"harness": hr.cfg.Func, "known_finding": strings.SplitN(k, "\x00", 2)[0], "obligation": v.f.Msg, "model": v.f.Model, "reproduced_natively": v.reproduced})
		}
		harnessInfo = append(harnessInfo, map[string]interface{}{
			"harness": hr.cfg.Func, "package": pkgImport(hr.cfg.Pkg), "what": hr.cfg.What,
			"paths": st.Paths, "completed": st.Completed, "pruned_by_assume": st.Pruned, "branch_decisions": st.Decisions,
			"obligations": st.Asserts, "obligations_symbolic": st.SymAsserts, "discharged_unsat": st.Discharged,
			"findings": len(st.Findings), "vacuity_witnesses": st.Witnesses, "witnesses_replayed_natively_ok": hr.witnessOK,
			"feasibility_queries": st.FeasQ, "obligation_queries": st.OblQ, "solver_time_s": round2(st.SolverTime.Seconds()),
			"wall_s": round2(hr.wall), "max_instructions_on_a_path": st.MaxSteps, "exhausted": hr.res.Exhausted, "cut": hr.res.CutReason,
		})
		bounds = append(bounds, map[string]interface{}{"harness": hr.cfg.Func, "params": hr.tier.Params, "instruction_budget_per_path": def(hr.tier.StepBudget, 2000000), "fork_depth_budget": def(hr.tier.ForkBudget, 400), "solver_timeout_ms": def(hr.tier.TimeoutMs, 10000), "max_paths": hr.tier.MaxPaths})
		assumptions = append(assumptions, hr.cfg.Assume...)
		outside = append(outside, hr.cfg.Outside...)
	}
	var repoFuncs, depFuncs []string
	for f := range funcs {
		if strings.Contains(f, "VerifH_") || strings.Contains(f, "verif") && strings.Contains(f, modPath) {
			continue
		}
		if strings.Contains(f, modPath) {
			repoFuncs = append(repoFuncs, fmt.Sprintf("%s (%d instr)", f, funcs[f]))
		} else {
			depFuncs = append(depFuncs, fmt.Sprintf("%s (%d instr)", f, funcs[f]))
		}
	}
	sort.Strings(repoFuncs)
	sort.Strings(depFuncs)
	var stubList []string
	for s, n := range stubs {
		stubList = append(stubList, fmt.Sprintf("stub %s (%d calls)", s, n))
	}
	for s, n := range intr {
		if strings.Contains(s, "zz_verifrt") {
			continue
		}
		stubList = append(stubList, fmt.Sprintf("intrinsic %s (%d calls)", s, n))
	}
	sort.Strings(stubList)
	if len(samples) == 0 {
		samples = append(samples, "no path completed")
	}
	if states == 0 {
		states = 1
		exhaustive = false
	}
	if transitions == 0 {
		transitions = 1
	}
	for _, o := range outside {
		assumptions = append(assumptions, "outside the claim: "+o)
	}
	assumptions = append(assumptions,
		"trusted base: x/tools go/ssa builder; the gosym executor's operator semantics and SMT-LIB printer; listed stubs/intrinsics; z3 4.8.12",
		"map iteration order is fixed to insertion order (one of the orders Go allows)",
		"counterexamples are reported only after reproducing natively (go test -overlay against /repo's working tree)")
	ev := map[string]interface{}{
		"property_id": id, "tier": tier, "seed": seed, "level": "model_checking",
		"coverage": map[string]interface{}{
			"states": states, "transitions": transitions, "traces_validated_against_impl": traces, "samples": samples,
			"exhaustive":  exhaustive && len(inconcl) == 0,
			"obligations": obligations, "discharged": discharged,
			"explanation": "states = symbolic paths completed (each covers every input satisfying its path condition); transitions = branch decisions on symbolic conditions; traces_validated = solver models (vacuity witnesses, counterexamples) re-run natively against the real build with agreeing verdict. Encoding regenerated from " + repoDir + " working tree on this run (go/packages + go/ssa, harness overlay).",
			"harnesses":   harnessInfo, "bounds": bounds,
			"functions_encoded_repo": repoFuncs, "functions_encoded_dependencies": depFuncs,
			"stubs_and_intrinsics": stubList,
			"queries":              map[string]interface{}{"feasibility": feasQ, "obligation": oblQ, "solver": "z3 4.8.12 (/usr/bin/z3 -in), one process per worker", "cross_checked_on_z3_5.1.0": crossQ, "cross_check_agreements": crossAgree},
			"solver_time_s":        round2(solverTime), "load_and_ssa_build_s": round2(loadSec),
			"vacuity_witnesses": witnesses, "inconclusive": inconcl, "report_lines": lines,
		},
		"assumptions": assumptions,
		"wall_s":      round2(wall), "violations": violations,
	}
	b, _ := json.MarshalIndent(ev, "", " ")
	evDir := evidenceDir()
	os.MkdirAll(evDir, 0o755)
	os.WriteFile(filepath.Join(evDir, id+".json"), b, 0o644)
}

// evidenceDir: /verif/evidence, unless redirected; a run restricted to one
// harness (--only) is a development aid and never overwrites the evidence of
// the registered command.
var partialRun bool

func evidenceDir() string {
	if v := os.Getenv("VERIF_EVIDENCE_DIR"); v != "" {
		return v
	}
	if partialRun {
		return filepath.Join(verifDir, ".work", "evidence-partial")
	}
	return filepath.Join(verifDir, "evidence")
}

func appendUnique(l []string, s string) []string {
	for _, x := range l {
		if x == s {
			return l
		}
	}
	return append(l, s)
}

func round2(f float64) float64 { return float64(int(f*100+0.5)) / 100 }
