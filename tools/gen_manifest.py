#!/usr/bin/env python3
"""Regenerates /verif/MANIFEST.json from harness/checks.json and tools/claims.json."""
import json, os
V = os.path.dirname(os.path.dirname(os.path.abspath(__file__)))
props = [json.loads(l) for l in open(os.path.join(V, 'properties.jsonl'))]
checks = json.load(open(os.path.join(V, 'harness', 'checks.json')))
claims = json.load(open(os.path.join(V, 'tools', 'claims.json')))
m = {
 "version": 1,
 "setup_cmd": "cd /verif/engine && GOFLAGS=-mod=vendor GOPROXY=off GOSUMDB=off GOTOOLCHAIN=local go build -o /verif/bin/vf ./cmd/vf",
 "hooks": {"guard": "verif",
           "enable": "harness files (build tag verif) are overlaid onto /repo at load time (go/packages Overlay for the symbolic run, go test -overlay for native replay); nothing is committed into /repo for instrumentation",
           "baseline_off_cmd": "cd /repo && go test -vet=off -count=1 ./...",
           "source_commits": [], "add_only": True},
 "engines": [{"name": "gosym", "path": "/verif/engine",
              "serves_properties": sorted(k for k in checks if k in claims["claimed"]),
              "kind_free_text": "bounded symbolic execution of the go/ssa form of /repo's working tree (own executor), obligations and path feasibility discharged by z3 over SMT-LIB2 bit-vectors and byte sequences; counterexamples replayed natively before being reported"}],
 "checks": [], "not_applicable": [],
 "notes": "exit codes: 0 all obligations inside the registered bound discharged; 1 a counterexample that reproduces natively (VIOLATION line); 2 inconclusive (solver unknown/error, budget, unsupported construct, replay mismatch, vacuous harness) - never reported as pass or violation. See DESIGN.md."}
for p in props:
    pid = p["id"]
    if pid in claims["claimed"] and pid in checks:
        c = claims["claimed"][pid]
        m["checks"].append({
            "property_id": pid,
            "quick_cmd": "./bin/vf check %s --tier quick" % pid,
            "thorough_cmd": "./bin/vf check %s --tier thorough" % pid,
            "evidence_file": "/verif/evidence/%s.json" % pid,
            "replay_cmd_template": "./bin/vf replay {path}",
            "engine": "gosym",
            "level_claimed": {"category": "model_checking", "text": c["text"], "design_ref": c.get("design_ref", "DESIGN.md section 6, " + pid)},
            "level_note": c["note"],
            "technique": c.get("technique", "bounded symbolic execution of Go SSA, SMT (z3) decides path feasibility and obligations")})
    else:
        m["not_applicable"].append({"property_id": pid, "reason": claims["not_applicable"].get(pid, "check not built yet")})
json.dump(m, open(os.path.join(V, 'MANIFEST.json'), 'w'), indent=1)
print("checks:", [c["property_id"] for c in m["checks"]])
print("not_applicable:", [c["property_id"] for c in m["not_applicable"]])
