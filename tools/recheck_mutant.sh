#!/bin/bash
# recheck_mutant.sh <name> [tier]: re-run the registered check against a kept seeded change and update its meta.json
name=$1; tier=${2:-quick}
d=/verif/seeded/$name
id=$(python3 -c "import json;print(json.load(open('$d/meta.json'))['property'])")
tr=$(/verif/tools/try_mutant.sh $id $d/patch.diff $tier 2>&1)
echo "$tr" | tail -4
python3 - "$name" "$id" "$tier" "$tr" <<'PYEOF'
import json,sys,re
name,id,tier,tr=sys.argv[1:5]
p='/verif/seeded/%s/meta.json'%name
meta=json.load(open(p))
m=re.search(r'mutant \S+ rc=(\d+)',tr)
rc=int(m.group(1)) if m else None
viol=[l for l in tr.split('\n') if l.startswith('VIOLATION') or l.startswith('INCONCLUSIVE')]
meta['check_run']={"command":"tools/try_mutant.sh %s patch.diff %s (git apply to a scratch worktree of /repo HEAD; VERIF_REPO=<worktree> ./bin/vf check; same result as applying to /repo and reverting)"%(id,tier),"exit_code":rc,"detected":rc==1,"lines":viol[:6]}
json.dump(meta,open(p,'w'),indent=1)
print("rechecked",name,"detected" if rc==1 else "NOT DETECTED rc=%s"%rc)
PYEOF
