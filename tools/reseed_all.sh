#!/bin/bash
# re-applies every seeded change (scratch worktree of /repo's HEAD each) and runs the quick check of its property
cd /verif
for d in seeded/*/; do
  name=$(basename $d); id=$(python3 -c "import json;print(json.load(open('$d/meta.json'))['property'])")
  out=$(tools/try_mutant.sh $id $PWD/$d/patch.diff quick 2>&1)
  echo "$name $id $(echo "$out" | tail -1 | cut -c1-120) $(echo "$out" | grep -m1 -o 'VerifH_[A-Za-z0-9_]*')"
done
git -C /repo status --short
