#!/bin/bash
# re-applies every seeded change to /repo's current tree and runs the quick check of its property
cd /verif
for d in seeded/*/; do
  name=$(basename $d); id=$(python3 -c "import json;print(json.load(open('$d/meta.json'))['property'])")
  if ! git -C /repo apply --check $PWD/$d/patch.diff 2>/dev/null; then echo "$name $id PATCH-NO-LONGER-APPLIES"; continue; fi
  git -C /repo apply $PWD/$d/patch.diff
  (cd /repo && go build ./... >/dev/null 2>&1) || { echo "$name $id DOES-NOT-BUILD"; git -C /repo checkout -- .; continue; }
  VERIF_EVIDENCE_DIR=/verif/.work/evidence-mut timeout 3000 ./bin/vf check $id --tier quick > .work/reseed-$name.log 2>&1; rc=$?
  git -C /repo checkout -- .
  echo "$name $id rc=$rc $(grep -c '^VIOLATION' .work/reseed-$name.log) violations; $(grep -m1 -o 'harness=[A-Za-z0-9_]*' .work/reseed-$name.log)"
done
git -C /repo status --short
