#!/bin/bash
# keep_mutant.sh <ID> <pkgdir-of-demo> [name]  : confirm in scratch worktree, try against the check, store under /verif/seeded/<name>
id=$1; pkgdir=$2; name=${3:-$id}
out=/tmp/mut/$name-out; wt=/tmp/mut/$name
[ -d $wt ] || wt=/tmp/mut/$id
conf=$(/verif/tools/confirm_mutant.sh $id $out $wt $pkgdir 2>&1)
echo "$conf" | tail -12
tr=$(/verif/tools/try_mutant.sh $id $out/patch.diff quick 2>&1)
echo "$tr" | tail -6
mkdir -p /verif/seeded/$name
cp $out/patch.diff /verif/seeded/$name/patch.diff
cp $out/demo_test.go /verif/seeded/$name/demo_test.go
cp $out/notes.txt /verif/seeded/$name/notes.txt
python3 - "$id" "$name" "$pkgdir" <<PYEOF
import json,sys,re
id,name,pkgdir=sys.argv[1:4]
conf=open('/dev/stdin').read() if False else ''
PYEOF
python3 - "$id" "$name" "$pkgdir" "$conf" "$tr" <<'PYEOF'
import json,sys
id,name,pkgdir,conf,tr=sys.argv[1:6]
notes=open('/verif/seeded/%s/notes.txt'%name).read()
rc=None
import re
m=re.search(r"mutant \S+ rc=(\d+)",tr)
if m: rc=int(m.group(1))
viol=[l for l in tr.split('\n') if l.startswith('VIOLATION') or l.startswith('INCONCLUSIVE')]
meta={"property":id,"name":name,"origin":"written by an independent sub-agent that saw only the property text and a scratch worktree of /repo",
 "needs_to_manifest":notes.strip()[:1500],
 "demo":{"file":"demo_test.go","copy_into_package_dir":pkgdir},
 "confirmed_in_scratch_worktree":{"commands":"tools/confirm_mutant.sh: demo passes without the change; git apply patch.diff; go build ./... && go test -vet=off -count=1 ./... (baseline suite passes with the change); demo fails with the change","output_tail":conf[-900:]},
 "check_run":{"command":"tools/try_mutant.sh %s patch.diff quick (git apply to a scratch worktree of /repo HEAD; VERIF_REPO=<worktree> ./bin/vf check %s --tier quick; same result as applying to /repo and reverting)"%(id,id),"exit_code":rc,"detected":rc==1,"lines":viol[:6]}}
json.dump(meta,open('/verif/seeded/%s/meta.json'%name,'w'),indent=1)
print("kept",name,"detected" if rc==1 else "NOT DETECTED rc=%s"%rc)
PYEOF
