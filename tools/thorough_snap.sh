#!/bin/bash
# thorough_snap.sh <ids...>: validates thorough tiers from a snapshot of /verif (so that /verif can be edited meanwhile)
snap=/tmp/vsnap-$$
mkdir -p $snap && rsync -a --exclude .work --exclude replays --exclude .git /verif/ $snap/ && mkdir -p $snap/.work
cd $snap
for id in "$@"; do
  s=$(date +%s)
  VERIF_DIR=$snap VERIF_EVIDENCE_DIR=$snap/.work/evidence VERIF_WORKERS=${VERIF_WORKERS:-10} timeout 9000 ./bin/vf check $id --tier thorough > $snap/.work/$id.log 2>&1
  rc=$?
  echo "$id rc=$rc $(( $(date +%s)-s ))s $(tail -1 $snap/.work/$id.log | cut -c1-140)"
  grep -E "^(VIOLATION|INCONCLUSIVE)" $snap/.work/$id.log | cut -c1-300 | head -4
done
rm -rf $snap
