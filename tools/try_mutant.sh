#!/bin/bash
# try_mutant.sh <ID> <patch.diff> [tier]: apply to /repo, run the check, revert
id=$1; patch=$2; tier=${3:-quick}
cd /repo && git apply $patch || { echo "PATCH DOES NOT APPLY to /repo"; exit 2; }
cd /verif && VERIF_EVIDENCE_DIR=/verif/.work/evidence-mut timeout 3000 ./bin/vf check $id --tier $tier > .work/mut-$id.log 2>&1; rc=$?
git -C /repo checkout -- . ; git -C /repo status --short | head -3
grep -E "^(VIOLATION|INCONCLUSIVE|KNOWN-FINDING)" .work/mut-$id.log | cut -c1-300 | head -8
echo "mutant $id rc=$rc: $(tail -1 .work/mut-$id.log | cut -c1-150)"
