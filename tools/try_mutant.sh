#!/bin/bash
# try_mutant.sh <ID> <patch.diff> [tier]: apply the patch to a scratch worktree of /repo's HEAD and run the
# registered check against it from a snapshot of /verif (VERIF_REPO, VERIF_DIR), then remove both.
# Neither /repo nor /verif is touched or depended on while the check runs, so this can run next to other
# work. (Equivalent to: git -C /repo apply; ./bin/vf check; git -C /repo checkout -- .)
id=$1; patch=$(readlink -f $2); tier=${3:-quick}
wt=/tmp/mutrepo-$$; snap=/tmp/mutverif-$$
git -C /repo worktree add --detach $wt HEAD >/dev/null 2>&1 || { echo "cannot create scratch worktree"; exit 2; }
trap 'git -C /repo worktree remove --force $wt >/dev/null 2>&1; rm -rf $snap' EXIT
(cd $wt && git apply $patch) || { echo "PATCH DOES NOT APPLY to /repo HEAD"; exit 2; }
mkdir -p $snap && rsync -a --exclude .work --exclude replays --exclude .git --exclude seeded --exclude engine --exclude evidence /verif/ $snap/
log=/verif/.work/mut-$id-$$.log
cd $snap && VERIF_DIR=$snap VERIF_REPO=$wt VERIF_EVIDENCE_DIR=$snap/.work/evidence timeout 3000 ./bin/vf check $id --tier $tier > $log 2>&1; rc=$?
grep -E "^(VIOLATION|INCONCLUSIVE|KNOWN-FINDING)" $log | sed "s|$snap|/verif|g" | cut -c1-300 | head -8
echo "mutant $id rc=$rc: $(tail -1 $log | cut -c1-150)"
