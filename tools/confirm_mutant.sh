#!/bin/bash
# confirm_mutant.sh <ID> <outdir> <scratch-worktree>
# confirms in the scratch worktree: patch applies, builds, baseline tests pass with it,
# demo fails with it and passes without it. Reads "pkgdir:" and "run:" hints from notes.txt if present.
id=$1; out=$2; wt=$3
export GOFLAGS=-mod=mod GOPROXY=off GOSUMDB=off
cd $wt || exit 2
git checkout -q -- . ; git clean -fdq
pkgdir=$(grep -i -m1 '^pkgdir:' $out/notes.txt 2>/dev/null | sed 's/^[^:]*: *//')
[ -z "$pkgdir" ] && pkgdir=$4
[ -z "$pkgdir" ] && pkgdir=.
echo "== demo package dir: $pkgdir"
cp $out/demo_test.go $wt/$pkgdir/zz_demo_test.go || exit 2
echo "== demo WITHOUT change"; (cd $wt/$pkgdir && go test -vet=off -count=1 -run 'Demo|demo|Mutant|Seeded|Verif|Test' . 2>&1 | tail -3)
git apply $out/patch.diff || { echo "PATCH DOES NOT APPLY"; exit 2; }
echo "== build + baseline WITH change"; go build ./... && (rm $wt/$pkgdir/zz_demo_test.go; go test -vet=off -count=1 ./... 2>&1 | grep -v "no test files")
cp $out/demo_test.go $wt/$pkgdir/zz_demo_test.go
echo "== demo WITH change"; (cd $wt/$pkgdir && go test -vet=off -count=1 . 2>&1 | tail -6)
git checkout -q -- . ; git clean -fdq
