#!/bin/bash
# runs every registered quick (or $1) check sequentially and prints a summary
tier=${1:-quick}
cd /verif
mkdir -p .work/runall
for id in $(python3 -c "import json;print(' '.join(c['property_id'] for c in json.load(open('MANIFEST.json'))['checks']))"); do
  s=$(date +%s)
  timeout 3000 ./bin/vf check $id --tier $tier > .work/runall/$id.log 2>&1
  rc=$?
  e=$(date +%s)
  echo "$id rc=$rc $((e-s))s $(grep -c '^KNOWN-FINDING' .work/runall/$id.log) known; $(tail -1 .work/runall/$id.log | cut -c1-120)"
done
