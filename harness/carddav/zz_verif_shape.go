//go:build verif

package carddav

import (
	"encoding"

	"github.com/emersion/go-webdav/internal"
	vrt "github.com/emersion/go-webdav/internal/zz_verifrt"
)

var verifNS = map[string]string{"C": "urn:ietf:params:xml:ns:carddav", "D": "DAV:"}

// RFC 6352 section 10: CARDDAV:addressbook-query
//
//	<!ELEMENT addressbook-query ((DAV:allprop | DAV:propname | DAV:prop)?, filter, limit?)>
//	<!ELEMENT filter (prop-filter*)>                                         test
//	<!ELEMENT prop-filter (is-not-defined | (text-match*, param-filter*))>   name, test
//	<!ELEMENT param-filter (is-not-defined | text-match)?>                   name
//	<!ELEMENT text-match (#PCDATA)>   collation, negate-condition, match-type
//	<!ELEMENT limit (nresults)>
var verifQuerySchema = []internal.VerifShapeSpec{
	{Path: "C:addressbook-query", Items: "D:prop? D:allprop? D:propname? C:filter C:limit?"},
	{Path: "C:addressbook-query/D:prop", Items: "#any*"},
	{Path: "C:addressbook-query/C:filter", Items: "@test? C:prop-filter*"},
	{Path: "C:addressbook-query/C:filter/C:prop-filter", Items: "@name @test? C:is-not-defined? C:text-match* C:param-filter*"},
	{Path: "C:addressbook-query/C:filter/C:prop-filter/C:text-match", Items: "#text @collation? @negate-condition? @match-type?"},
	{Path: "C:addressbook-query/C:filter/C:prop-filter/C:param-filter", Items: "@name C:is-not-defined? C:text-match?"},
	{Path: "C:addressbook-query/C:filter/C:prop-filter/C:param-filter/C:text-match", Items: "#text @collation? @negate-condition? @match-type?"},
	{Path: "C:addressbook-query/C:limit", Items: "C:nresults"},
}

// <!ELEMENT addressbook-multiget ((DAV:allprop | DAV:propname | DAV:prop)?, DAV:href+)>
var verifMultigetSchema = []internal.VerifShapeSpec{
	{Path: "C:addressbook-multiget", Items: "D:prop? D:allprop? D:propname? D:href*"},
	{Path: "C:addressbook-multiget/D:prop", Items: "#any*"},
}

// <!ELEMENT address-data (allprop | prop*)>   content-type, version
// <!ELEMENT prop EMPTY>                       name, novalue
var verifAddressDataSchema = []internal.VerifShapeSpec{
	{Path: "C:address-data", Items: "C:prop* C:allprop?", Optional: "@content-type? @version?"},
	{Path: "C:address-data/C:prop", Items: "@name", Optional: "@novalue?"},
}

// VerifH_C09_WireSchema: the wire structs of addressbook-query,
// addressbook-multiget and the address-data request map to exactly the
// elements, attributes and namespaces of RFC 6352.

// verifFreeAttr: a free-form attribute of a request element. If its Go type
// decodes its own text, the decoder must accept the values the RFC requires
// every server to understand; an attribute of plain string type takes
// everything (encoding/xml stores the text).
func verifFreeAttr(field interface{}, what string, values []string) {
	u, ok := field.(encoding.TextUnmarshaler)
	if !ok {
		return
	}
	for _, v := range values {
		vrt.Assert(u.UnmarshalText([]byte(v)) == nil, what+" accepts "+v)
	}
}

// verifFreeAttrs: RFC 6352 section 8.3 (i;ascii-casemap and i;unicode-casemap are required of every server); names are any iana-token or x-name.
func verifFreeAttrs() {
	var tm textMatch
	verifFreeAttr(&tm.Collation, "the collation attribute of text-match", []string{"i;ascii-casemap", "i;unicode-casemap"})
	names := []string{"EMAIL", "X-ABC-DEF", "fn", "VERSION"}
	var vpropFilter propFilter
	verifFreeAttr(&vpropFilter.Name, "the name attribute of propFilter", names)
	var vparamFilter paramFilter
	verifFreeAttr(&vparamFilter.Name, "the name attribute of paramFilter", names)
	var vprop prop
	verifFreeAttr(&vprop.Name, "the name attribute of prop", names)
}

func VerifH_C09_WireSchema() {
	verifFreeAttrs()
	internal.VerifCheckShape(vrt.XMLShape(&addressbookQuery{}), verifNS, verifQuerySchema, "addressbook-query")
	internal.VerifCheckShape(vrt.XMLShape(&addressbookMultiget{}), verifNS, verifMultigetSchema, "addressbook-multiget")
	internal.VerifCheckShape(vrt.XMLShape(&addressDataReq{}), verifNS, verifAddressDataSchema, "address-data")
	vrt.Reach("wire-schema")
}

var verifPropSchemas = [][]internal.VerifShapeSpec{
	{{Path: "C:addressbook-home-set", Items: "D:href"}},
	{{Path: "C:addressbook-description", Items: "#text"}},
	{{Path: "C:supported-address-data", Items: "C:address-data-type*"}, {Path: "C:supported-address-data/C:address-data-type", Items: "@content-type @version"}},
	{{Path: "C:max-resource-size", Items: "#text"}},
	{{Path: "C:address-data", Items: "#text"}},
}

// VerifH_C10_WireSchema: the property elements of CardDAV answers.
func VerifH_C10_WireSchema() {
	vals := []interface{}{&addressbookHomeSet{}, &addressbookDescription{}, &supportedAddressData{}, &maxResourceSize{}, &addressDataResp{}}
	for i, v := range vals {
		internal.VerifCheckShape(vrt.XMLShape(v), verifNS, verifPropSchemas[i], "carddav property")
	}
	vrt.Reach("wire-schema")
}
