//go:build verif

package carddav

import (
	"context"
	"encoding/xml"
	"net/http"

	"github.com/emersion/go-vcard"
	"github.com/emersion/go-webdav"
	"github.com/emersion/go-webdav/internal"
	vrt "github.com/emersion/go-webdav/internal/zz_verifrt"
)

// verifCopy: typed copies for the identity wire (symbolic run only).
func verifCopy(dst, src interface{}) bool {
	switch d := dst.(type) {
	case *addressDataReq:
		if s, ok := src.(*addressDataReq); ok {
			*d = *s
			return true
		}
	case *addressDataResp:
		if s, ok := src.(*addressDataResp); ok {
			*d = *s
			return true
		}
	case *addressbookHomeSet:
		if s, ok := src.(*addressbookHomeSet); ok {
			*d = *s
			return true
		}
	case *addressbookDescription:
		if s, ok := src.(*addressbookDescription); ok {
			*d = *s
			return true
		}
	case *supportedAddressData:
		if s, ok := src.(*supportedAddressData); ok {
			*d = *s
			return true
		}
	case *maxResourceSize:
		if s, ok := src.(*maxResourceSize); ok {
			*d = *s
			return true
		}
	case *reportReq:
		switch s := src.(type) {
		case *reportReq:
			*d = *s
			return true
		case *addressbookQuery:
			*d = reportReq{Query: s}
			return true
		case *addressbookMultiget:
			*d = reportReq{Multiget: s}
			return true
		}
	case *mkcolReq:
		if s, ok := src.(*mkcolReq); ok {
			*d = *s
			return true
		}
	}
	return false
}

// verifPropGet finds the property struct of dst's type in a prop element.
func verifPropGet(p *internal.Prop, dst interface{}) bool {
	if p == nil {
		return false
	}
	if vrt.Symbolic() {
		for i := range p.Raw {
			if out := p.Raw[i].VerifOut(); out != nil && verifCopy(dst, out) {
				return true
			}
		}
		return false
	}
	return p.Decode(dst) == nil
}

// verifRecorder is a minimal http.ResponseWriter.
type verifRecorder struct {
	hdr   http.Header
	code  int
	parts []string
}

func newVerifRecorder() *verifRecorder { return &verifRecorder{hdr: http.Header{}} }

func (r *verifRecorder) Header() http.Header { return r.hdr }
func (r *verifRecorder) WriteHeader(code int) {
	if r.code == 0 {
		r.code = code
	}
}
func (r *verifRecorder) Write(b []byte) (int, error) {
	if r.code == 0 {
		r.code = 200
	}
	r.parts = append(r.parts, string(b))
	return len(b), nil
}
func (r *verifRecorder) WriteString(s string) (int, error) {
	if r.code == 0 {
		r.code = 200
	}
	r.parts = append(r.parts, s)
	return len(s), nil
}

// verifBackend records what reaches the backend.
type verifBackend struct {
	principal, homeSet string
	calls              []string
	paths              []string
	query              *AddressBookQuery
	dataReqs           []*AddressDataRequest
	putCard            vcard.Card
	putOpts            *PutAddressObjectOptions
	created            *AddressBook
	objects            []AddressObject
	books              []AddressBook
	getErr             func(path string) error
	putResult          *AddressObject
	mutations          int
}

func (b *verifBackend) note(call, path string) {
	b.calls = append(b.calls, call)
	b.paths = append(b.paths, path)
}

func (b *verifBackend) CurrentUserPrincipal(ctx context.Context) (string, error) {
	return b.principal, nil
}
func (b *verifBackend) AddressBookHomeSetPath(ctx context.Context) (string, error) {
	return b.homeSet, nil
}
func (b *verifBackend) ListAddressBooks(ctx context.Context) ([]AddressBook, error) {
	b.note("ListAddressBooks", "")
	return b.books, nil
}
func (b *verifBackend) GetAddressBook(ctx context.Context, path string) (*AddressBook, error) {
	b.note("GetAddressBook", path)
	for i := range b.books {
		if b.books[i].Path == path {
			return &b.books[i], nil
		}
	}
	return nil, webdav.NewHTTPError(404, nil)
}
func (b *verifBackend) CreateAddressBook(ctx context.Context, ab *AddressBook) error {
	b.note("CreateAddressBook", ab.Path)
	b.created = ab
	b.mutations++
	return nil
}
func (b *verifBackend) DeleteAddressBook(ctx context.Context, path string) error {
	b.note("DeleteAddressBook", path)
	b.mutations++
	return nil
}
func (b *verifBackend) GetAddressObject(ctx context.Context, path string, req *AddressDataRequest) (*AddressObject, error) {
	b.note("GetAddressObject", path)
	b.dataReqs = append(b.dataReqs, req)
	if b.getErr != nil {
		if err := b.getErr(path); err != nil {
			return nil, err
		}
	}
	for i := range b.objects {
		if b.objects[i].Path == path {
			return &b.objects[i], nil
		}
	}
	return nil, webdav.NewHTTPError(404, nil)
}
func (b *verifBackend) ListAddressObjects(ctx context.Context, path string, req *AddressDataRequest) ([]AddressObject, error) {
	b.note("ListAddressObjects", path)
	return b.objects, nil
}
func (b *verifBackend) QueryAddressObjects(ctx context.Context, path string, query *AddressBookQuery) ([]AddressObject, error) {
	b.note("QueryAddressObjects", path)
	b.query = query
	return nil, nil
}
func (b *verifBackend) PutAddressObject(ctx context.Context, path string, card vcard.Card, opts *PutAddressObjectOptions) (*AddressObject, error) {
	b.note("PutAddressObject", path)
	b.putCard, b.putOpts = card, opts
	b.mutations++
	if b.putResult != nil {
		return b.putResult, nil
	}
	return &AddressObject{Path: path}, nil
}
func (b *verifBackend) DeleteAddressObject(ctx context.Context, path string) error {
	b.note("DeleteAddressObject", path)
	b.mutations++
	return nil
}

var _ Backend = (*verifBackend)(nil)
var _ = xml.Header
