//go:build verif

package carddav

import (
	"context"
	"errors"
	"fmt"
	"io"
	"io/ioutil"
	"net/http"
	"strconv"
	"strings"

	"github.com/emersion/go-vcard"

	"github.com/emersion/go-webdav"
	"github.com/emersion/go-webdav/internal"
	vrt "github.com/emersion/go-webdav/internal/zz_verifrt"
)

// vCard text codec as an uninterpreted pair: decode(encode(c)) = c.
var verifCards []vcard.Card
var verifEncW map[*vcard.Encoder]io.Writer
var verifDecR map[*vcard.Decoder]io.Reader

func verifResetCodec() {
	verifCards = nil
	verifEncW = map[*vcard.Encoder]io.Writer{}
	verifDecR = map[*vcard.Decoder]io.Reader{}
}

func verifStubVCardNewEncoder(w io.Writer) *vcard.Encoder {
	e := &vcard.Encoder{}
	verifEncW[e] = w
	return e
}

func verifStubVCardEncode(e *vcard.Encoder, c vcard.Card) error {
	w := verifEncW[e]
	verifCards = append(verifCards, c)
	_, err := io.WriteString(w, "@card"+strconv.Itoa(len(verifCards)-1)+";")
	return err
}

func verifStubVCardNewDecoder(r io.Reader) *vcard.Decoder {
	d := &vcard.Decoder{}
	verifDecR[d] = r
	return d
}

func verifStubVCardDecodeToken(d *vcard.Decoder) (vcard.Card, error) {
	r := verifDecR[d]
	if r == nil {
		return nil, io.EOF
	}
	delete(verifDecR, d)
	b, err := ioutil.ReadAll(r)
	if err != nil {
		return nil, err
	}
	s := string(b)
	if !strings.HasPrefix(s, "@card") || !strings.HasSuffix(s, ";") {
		return nil, fmt.Errorf("vcard: malformed")
	}
	id, err := strconv.Atoi(s[5 : len(s)-1])
	if err != nil || id < 0 || id >= len(verifCards) {
		return nil, fmt.Errorf("vcard: malformed")
	}
	return verifCards[id], nil
}

func symAddressObject(i int) AddressObject {
	tag := "obj" + strconv.Itoa(i)
	ao := AddressObject{
		Path:          "/dav/u/contacts/ab/" + vrt.StrNIn(tag+"-name", 1, 'a', 'z') + ".vcf",
		ETag:          vrt.Text(tag + "-etag"),
		ContentLength: vrt.Int64(tag + "-length"),
		Card: vcard.Card{
			vcard.FieldVersion:       []*vcard.Field{{Value: "3.0"}},
			vcard.FieldFormattedName: []*vcard.Field{{Value: "name " + strconv.Itoa(i)}},
			vcard.FieldUID:           []*vcard.Field{{Value: "uid-" + strconv.Itoa(i)}},
		},
	}
	if vrt.Choose(tag+"-hasmodtime", 2) == 1 {
		ao.ModTime = vrt.TimeIn(tag+"-modtime", vrt.Choose(tag+"-zone", 3))
	}
	return ao
}

func newLoopClientAt(be Backend, endpointPath string) *Client {
	lb := &internal.VerifLoopback{Handler: &Handler{Backend: be, Prefix: "/dav"}}
	if vrt.Symbolic() {
		return &Client{ic: internal.VerifNewClient(lb, endpointPath)}
	}
	c, err := NewClient(lb, "http://dav.example"+endpointPath)
	if err != nil {
		panic(err)
	}
	return c
}

func newLoopClient(be Backend) (*Client, *internal.VerifLoopback) {
	lb := &internal.VerifLoopback{Handler: &Handler{Backend: be, Prefix: "/dav"}}
	ic := internal.VerifNewClient(lb, "/dav/")
	var wc *webdav.Client
	if !vrt.Symbolic() {
		var err error
		wc, err = webdav.NewClient(lb, "http://dav.example/dav/")
		if err != nil {
			panic(err)
		}
	}
	return &Client{Client: wc, ic: ic}, lb
}

func objEqC10(got *AddressObject, want *AddressObject, where string) {
	vrt.Assert(got.Path == want.Path, where+": path")
	vrt.Assert(got.ETag == want.ETag, where+": entity tag")
	if want.ModTime.IsZero() {
		vrt.Assert(got.ModTime.IsZero(), where+": no modification time invented")
	} else {
		vrt.Assert(got.ModTime.Equal(want.ModTime), where+": modification time (to the second)")
	}
	vrt.Assert(cardEq(got.Card, want.Card), where+": vCard content")
}

// VerifH_C10_MultiGet: one response per href in request order, object or
// the backend's own error status.
func VerifH_C10_MultiGet() {
	internal.VerifResetWire()
	internal.VerifCopyHook = verifCopy
	verifResetCodec()
	n := 1 + vrt.Choose("nhrefs", vrt.Param("maxhrefs", 2))
	be := &verifBackend{principal: "/dav/u/", homeSet: "/dav/u/contacts/"}
	var paths []string
	outcome := make([]int, n)
	codes := make([]int, n)
	for i := 0; i < n; i++ {
		ao := symAddressObject(i)
		paths = append(paths, ao.Path)
		outcome[i] = vrt.Choose("outcome", 3)
		switch outcome[i] {
		case 0:
			be.objects = append(be.objects, ao)
		case 1:
			codes[i] = []int{403, 404, 409, 507}[vrt.Choose("backend-error-code", 4)]
		case 2:
			codes[i] = 500
		}
	}
	for i := 0; i < n; i++ {
		for j := i + 1; j < n; j++ {
			vrt.Assume(paths[i] != paths[j])
		}
	}
	be.getErr = func(path string) error {
		for i := range paths {
			if paths[i] == path {
				switch outcome[i] {
				case 1:
					return webdav.NewHTTPError(codes[i], fmt.Errorf("refused"))
				case 2:
					return fmt.Errorf("backend broke")
				}
			}
		}
		return nil
	}
	h := &Handler{Backend: be, Prefix: "/dav"}
	var doc addressbookMultiget
	for _, p := range paths {
		doc.Hrefs = append(doc.Hrefs, internal.Href{Path: p})
	}
	doc.AllProp = &struct{}{}
	rec := newVerifRecorder()
	err := h.handleMultiget(context.Background(), rec, &doc)
	vrt.Assert(err == nil && rec.code == 207, "multiget is answered with a multi-status")
	if err != nil {
		return
	}
	var ms *internal.MultiStatus
	if vrt.Symbolic() {
		ms = internal.VerifServed
	} else {
		ms = &internal.MultiStatus{}
		if err := internal.VerifXMLRoundTripBytes([]byte(strings.Join(rec.parts, "")), ms); err != nil {
			vrt.Fail("multi-status body not readable: " + err.Error())
			return
		}
	}
	vrt.Assert(ms != nil && len(ms.Responses) == n, "multiget: exactly one response per requested href")
	if ms == nil || len(ms.Responses) != n {
		return
	}
	for i := 0; i < n; i++ {
		resp := &ms.Responses[i]
		vrt.Assert(len(resp.Hrefs) == 1 && resp.Hrefs[0].Path == paths[i], "multiget: responses in request order, each carrying its href")
		rerr := resp.Err()
		if outcome[i] == 0 {
			vrt.Assert(rerr == nil, "multiget: an object that exists is reported without error status")
			var data addressDataResp
			vrt.Assert(resp.DecodeProp(&data) == nil, "multiget: address-data of the object is included")
		} else {
			vrt.Assert(rerr != nil, "multiget: a failing href is reported with an error status")
			if he, ok := rerr.(*internal.HTTPError); ok {
				vrt.Assert(he.Code == codes[i], "multiget: the backend's own status for that resource")
			}
		}
	}
	vrt.Reach("multiget")
}

func VerifH_C10_ClientMultiGet() {
	internal.VerifResetWire()
	internal.VerifCopyHook = verifCopy
	verifResetCodec()
	n := 1 + vrt.Choose("nobjects", vrt.Param("maxobjects", 2))
	be := &verifBackend{principal: "/dav/u/", homeSet: "/dav/u/contacts/"}
	var paths []string
	for i := 0; i < n; i++ {
		ao := symAddressObject(i)
		vrt.Assume(ao.ContentLength >= 0)
		be.objects = append(be.objects, ao)
		paths = append(paths, ao.Path)
	}
	for i := 0; i < n; i++ {
		for j := i + 1; j < n; j++ {
			vrt.Assume(paths[i] != paths[j])
		}
	}
	// optionally one more href that the backend refuses with its own status
	// (507 has a standard reason phrase, 509 has none)
	failCode := 0
	if vrt.Choose("failing-href", 2) == 1 {
		failCode = []int{404, 507, 509}[vrt.Choose("failing-code", 3)]
		fc := failCode
		bad := "/dav/u/contacts/ab/Z-missing"
		paths = append(paths, bad)
		be.getErr = func(path string) error {
			if path == bad {
				return webdav.NewHTTPError(fc, fmt.Errorf("refused"))
			}
			return nil
		}
	}
	// optionally the first href is requested once more at the end: every
	// requested href is answered, in request order
	repeated := false
	if failCode == 0 && n >= 2 && vrt.Choose("first-href-again", 2) == 1 {
		repeated = true
		paths = append(paths, paths[0])
	}
	c, _ := newLoopClient(be)
	got, err := c.MultiGetAddressBook(context.Background(), "/dav/u/contacts/ab/", &AddressBookMultiGet{Paths: paths, DataRequest: AddressDataRequest{AllProp: true}})
	if failCode != 0 {
		// a resource reported with a non-success status is surfaced as an
		// error carrying the backend's status, never as valid data
		var he *internal.HTTPError
		vrt.Assert(err != nil && errors.As(err, &he) && he.Code == failCode, "MultiGetAddressBook: a failing href is surfaced as an error with the backend's status")
		vrt.Reach("client-multiget/failed-href")
		return
	}
	vrt.Assert(err == nil, "MultiGetAddressBook succeeds for existing objects")
	if err != nil {
		return
	}
	vrt.Assert(len(got) == len(paths), "MultiGetAddressBook: one object per requested path")
	if len(got) != len(paths) {
		return
	}
	for i := range got {
		want := i
		if repeated && i == n {
			want = 0
		}
		objEqC10(&got[i], &be.objects[want], "MultiGetAddressBook")
	}
	vrt.Reach("client-multiget")
}

func VerifH_C10_GetPut() {
	internal.VerifResetWire()
	internal.VerifCopyHook = verifCopy
	verifResetCodec()
	be := &verifBackend{principal: "/dav/u/", homeSet: "/dav/u/contacts/"}
	ao := symAddressObject(0)
	be.objects = []AddressObject{ao}
	c, _ := newLoopClient(be)
	got, err := c.GetAddressObject(context.Background(), ao.Path)
	vrt.Assert(err == nil && got != nil, "GetAddressObject succeeds for an existing object")
	if err == nil && got != nil {
		objEqC10(got, &ao, "GetAddressObject")
		if ao.ContentLength > 0 {
			vrt.Assert(got.ContentLength == ao.ContentLength, "GetAddressObject: content length")
		}
	}
	card := symAddressObject(1).Card
	// the backend stores the object under the request path or elsewhere
	putPath := "/dav/u/contacts/ab/new.vcf"
	storedPath := putPath
	if vrt.Choose("stored-elsewhere", 2) == 1 {
		storedPath = "/dav/u/contacts/ab/" + vrt.StrNIn("stored-name", 1, 'a', 'z') + ".vcf"
	}
	be.putResult = &AddressObject{Path: storedPath, ETag: vrt.Text("stored-etag")}
	if vrt.Choose("stored-hasmodtime", 2) == 1 {
		be.putResult.ModTime = vrt.TimeIn("stored-modtime", vrt.Choose("stored-zone", 3))
	}
	// the caller may name the resource relative to the client's endpoint
	given := putPath
	if vrt.Choose("relative-put-name", 2) == 1 {
		c = newLoopClientAt(be, "/dav/u/contacts/ab/")
		given = "new.vcf"
	}
	res, err := c.PutAddressObject(context.Background(), given, card)
	vrt.Assert(err == nil && res != nil, "PutAddressObject succeeds")
	if err == nil && res != nil {
		vrt.Assert(cardEq(be.putCard, card), "PUT delivers to the backend a card equal to the caller's")
		vrt.Assert(len(be.paths) > 0 && be.paths[len(be.paths)-1] == putPath, "PUT is addressed to the named resource")
		vrt.Assert(res.Path == be.putResult.Path, "PUT hands back the backend's path")
		vrt.Assert(res.ETag == be.putResult.ETag, "PUT hands back the backend's entity tag")
		if be.putResult.ModTime.IsZero() {
			vrt.Assert(res.ModTime.IsZero(), "PUT: no modification time invented")
		} else {
			vrt.Assert(res.ModTime.Equal(be.putResult.ModTime), "PUT hands back the backend's modification time")
		}
	}
	vrt.Reach("getput")
}

func VerifH_C10_Discovery() {
	internal.VerifResetWire()
	internal.VerifCopyHook = verifCopy
	verifResetCodec()
	be := &verifBackend{principal: "/dav/u/", homeSet: "/dav/u/contacts/"}
	n := vrt.Choose("nbooks", vrt.Param("maxbooks", 2)+1)
	for i := 0; i < n; i++ {
		tag := "ab" + strconv.Itoa(i)
		ab := AddressBook{Path: "/dav/u/contacts/" + vrt.StrNIn(tag+"-name", 1, 'a', 'z') + "/", Name: vrt.Text(tag + "-displayname"), Description: vrt.Text(tag + "-description"), MaxResourceSize: vrt.Int64(tag + "-maxsize")}
		vrt.Assume(ab.MaxResourceSize >= 0)
		be.books = append(be.books, ab)
	}
	for i := 0; i < n; i++ {
		for j := i + 1; j < n; j++ {
			vrt.Assume(be.books[i].Path != be.books[j].Path)
		}
	}
	c, _ := newLoopClient(be)
	hs, err := c.FindAddressBookHomeSet(context.Background(), "/dav/u/")
	vrt.Assert(err == nil && hs == "/dav/u/contacts/", "FindAddressBookHomeSet returns the backend's home set path")
	books, err := c.FindAddressBooks(context.Background(), "/dav/u/contacts/")
	vrt.Assert(err == nil, "FindAddressBooks succeeds")
	if err != nil {
		return
	}
	vrt.Assert(len(books) == n, "FindAddressBooks: exactly the backend's address books")
	if len(books) != n {
		return
	}
	for i := range books {
		want := &be.books[i]
		vrt.Assert(books[i].Path == want.Path, "address book path")
		vrt.Assert(books[i].Name == want.Name, "address book display name")
		vrt.Assert(books[i].Description == want.Description, "address book description")
		vrt.Assert(books[i].MaxResourceSize == want.MaxResourceSize, "address book size limit")
	}
	vrt.Reach("discovery")
}

// VerifH_C10_Sync: SyncCollection over an arbitrary multi-status: a 404
// resource is a deletion, never an update; other failures are errors;
// successful members are reported with their tag and time.
func VerifH_C10_Sync() {
	internal.VerifResetWire()
	internal.VerifCopyHook = verifCopy
	n := vrt.Choose("nresponses", vrt.Param("maxresp", 2)+1)
	ms := &internal.MultiStatus{SyncToken: vrt.Text("sync-token")}
	kinds := make([]int, n)
	codes := make([]int, n)
	paths := make([]string, n)
	second := make([]string, n) // a failed member may name a second resource (RFC 4918: href+ with status)
	for i := 0; i < n; i++ {
		paths[i] = "/dav/u/contacts/ab/" + string(rune('a'+i)) + ".vcf"
		resp := internal.Response{Hrefs: []internal.Href{{Path: paths[i]}}}
		kinds[i] = vrt.Choose("response-kind", 3)
		switch kinds[i] {
		case 0: // updated member
			raw, _ := internal.EncodeRawXMLElement(&internal.GetETag{ETag: internal.ETag("tag" + string(rune('a'+i)))})
			resp.PropStats = []internal.PropStat{{Status: internal.Status{Code: 200}, Prop: internal.Prop{Raw: []internal.RawXMLValue{*raw}}}}
		case 1: // failed member with an arbitrary status
			codes[i] = vrt.IntRange("response-status", 100, 999)
			vrt.Assume(codes[i] < 200 || codes[i] > 299)
			resp.Status = &internal.Status{Code: codes[i]}
			if vrt.Choose("second-href", 2) == 1 {
				second[i] = "/dav/u/contacts/ab/" + string(rune('a'+i)) + "2.vcf"
				resp.Hrefs = append(resp.Hrefs, internal.Href{Path: second[i]})
			}
		case 2: // the collection itself
			resp.Hrefs[0].Path = "/dav/u/contacts/ab/"
			resp.PropStats = []internal.PropStat{{Status: internal.Status{Code: 200}}}
		}
		ms.Responses = append(ms.Responses, resp)
	}
	internal.VerifReplyMultiStatus = nil
	var c *Client
	if vrt.Symbolic() {
		sent := ms
		internal.VerifReplyMultiStatus = func(req *http.Request) (*internal.MultiStatus, error) { return sent, nil }
		c = &Client{ic: internal.VerifNewClient(&internal.VerifHTTPClient{}, "/dav/")}
	} else {
		b, err := internal.VerifMarshal(ms)
		if err != nil {
			vrt.Fail("cannot marshal multi-status: " + err.Error())
			return
		}
		hc := &internal.VerifHTTPClient{Status: 207, Header: http.Header{"Content-Type": []string{"text/xml"}}, Body: b}
		c = &Client{ic: internal.VerifNewClient(hc, "/dav/")}
	}
	res, err := c.SyncCollection(context.Background(), "/dav/u/contacts/ab/", &SyncQuery{SyncToken: "t0"})
	fatal := false
	for i := 0; i < n; i++ {
		if kinds[i] == 1 && codes[i] != 404 {
			fatal = true
		}
	}
	vrt.Assert((err != nil) == fatal, "SyncCollection fails exactly when a member reports a failure other than 404")
	if err != nil {
		vrt.Assert(res == nil, "no data together with an error")
		vrt.Reach("sync/failed")
		return
	}
	vrt.Assert(res.SyncToken == ms.SyncToken, "sync token is handed back")
	var wantUpd, wantDel []string
	for i := 0; i < n; i++ {
		switch kinds[i] {
		case 0:
			wantUpd = append(wantUpd, paths[i])
		case 1:
			wantDel = append(wantDel, paths[i])
			if second[i] != "" {
				wantDel = append(wantDel, second[i])
			}
		}
	}
	vrt.Assert(len(res.Updated) == len(wantUpd), "updated members: exactly the successful ones")
	vrt.Assert(len(res.Deleted) == len(wantDel), "deleted members: exactly the 404 ones")
	if len(res.Updated) == len(wantUpd) {
		for k := range wantUpd {
			vrt.Assert(res.Updated[k].Path == wantUpd[k], "updated member path")
			vrt.Assert(res.Updated[k].ETag != "", "updated member carries its tag")
		}
	}
	if len(res.Deleted) == len(wantDel) {
		for k := range wantDel {
			vrt.Assert(res.Deleted[k] == wantDel[k], "deleted member path")
		}
	}
	vrt.Reach("sync/ok")
}

// VerifH_C10_HeaderTags: the entity tag crosses GET and PUT answers as a
// header: for every tag of one or two arbitrary bytes (the real strconv
// quoting and unquoting code runs on them) GetAddressObject and PutAddressObject
// hand back exactly the backend's tag.
func VerifH_C10_HeaderTags() {
	internal.VerifResetWire()
	internal.VerifCopyHook = verifCopy
	verifResetCodec()
	tag := vrt.StrN("etag", 1+vrt.Choose("etag-len", vrt.Param("etaglen", 2)))
	be := &verifBackend{principal: "/dav/u/", homeSet: "/dav/u/contacts/"}
	obj := AddressObject{Path: "/dav/u/contacts/ab/o.x", ETag: tag, Card: verifValidCard()}
	be.objects = []AddressObject{obj}
	c, _ := newLoopClient(be)
	got, err := c.GetAddressObject(context.Background(), obj.Path)
	vrt.Assert(err == nil && got != nil && got.ETag == tag, "GetAddressObject hands back the backend's entity tag")
	be.putResult = &AddressObject{Path: obj.Path, ETag: tag}
	res, err := c.PutAddressObject(context.Background(), obj.Path, verifValidCard())
	vrt.Assert(err == nil && res != nil && res.ETag == tag, "PutAddressObject hands back the backend's entity tag")
	vrt.Reach("header-tags")
}
