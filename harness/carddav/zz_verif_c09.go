//go:build verif

package carddav

import (
	"context"
	"encoding/xml"
	"net/http"
	"net/url"

	"github.com/emersion/go-webdav/internal"
	vrt "github.com/emersion/go-webdav/internal/zz_verifrt"
)

// ---- independent reader of the wire structs (RFC 6352 10.3 - 10.7) -------

func refNegate(nc negateCondition) (bool, bool) {
	// through the attribute codec: absent attribute means "no"
	text, err := nc.MarshalText()
	if err != nil {
		return false, false
	}
	if len(text) == 0 {
		return false, true
	}
	var back negateCondition
	if err := back.UnmarshalText(text); err != nil {
		return false, false
	}
	return bool(back), true
}

func refTest(t filterTest) FilterTest {
	if t == "" {
		return FilterAnyOf // RFC 6352 10.5: default anyof
	}
	return FilterTest(t)
}

func refMatchType(t matchType) MatchType {
	if t == "" {
		return MatchContains // RFC 6352 10.5.4: default contains
	}
	return MatchType(t)
}

func normTest(t FilterTest) FilterTest {
	if t == "" {
		return FilterAnyOf
	}
	return t
}

func normMatchType(t MatchType) MatchType {
	if t == "" {
		return MatchContains
	}
	return t
}

// checkTextMatchEq: element el denotes the text-match tm.
func checkTextMatchEq(el *textMatch, tm *TextMatch, where string) {
	neg, ok := refNegate(el.NegateCondition)
	vrt.Assert(ok, where+": negate-condition attribute must be readable")
	vrt.Assert(el.Text == tm.Text, where+": text-match text")
	vrt.Assert(neg == tm.NegateCondition, where+": negate-condition")
	vrt.Assert(refMatchType(el.MatchType) == normMatchType(tm.MatchType), where+": match-type")
}

func checkParamFilterEq(el *paramFilter, pf *ParamFilter, where string) {
	vrt.Assert(el.Name == pf.Name, where+": param-filter name")
	vrt.Assert((el.IsNotDefined != nil) == pf.IsNotDefined, where+": param-filter is-not-defined")
	vrt.Assert((el.TextMatch != nil) == (pf.TextMatch != nil), where+": param-filter text-match presence")
	if el.TextMatch != nil && pf.TextMatch != nil {
		checkTextMatchEq(el.TextMatch, pf.TextMatch, where+" param")
	}
}

func checkPropFilterEq(el *propFilter, pf *PropFilter, where string) {
	vrt.Assert(el.Name == pf.Name, where+": prop-filter name")
	vrt.Assert(refTest(el.Test) == normTest(pf.Test), where+": prop-filter test")
	vrt.Assert((el.IsNotDefined != nil) == pf.IsNotDefined, where+": prop-filter is-not-defined")
	vrt.Assert(len(el.TextMatches) == len(pf.TextMatches), where+": number of text-matches")
	if len(el.TextMatches) == len(pf.TextMatches) {
		for i := range el.TextMatches {
			checkTextMatchEq(&el.TextMatches[i], &pf.TextMatches[i], where)
		}
	}
	vrt.Assert(len(el.Params) == len(pf.Params), where+": number of param-filters")
	if len(el.Params) == len(pf.Params) {
		for i := range el.Params {
			checkParamFilterEq(&el.Params[i], &pf.Params[i], where)
		}
	}
}

func checkDataReqEq(p *internal.Prop, req *AddressDataRequest, where string) {
	var ad addressDataReq
	found := verifPropGet(p, &ad)
	vrt.Assert(found, where+": address-data element present in DAV:prop")
	if !found {
		return
	}
	if req.AllProp {
		vrt.Assert(ad.Allprop != nil || len(ad.Props) == 0, where+": all-properties requested")
		return
	}
	vrt.Assert(ad.Allprop == nil, where+": allprop must not be sent when specific properties are requested")
	vrt.Assert(len(ad.Props) == len(req.Props), where+": number of requested vCard properties")
	if len(ad.Props) == len(req.Props) {
		for i := range req.Props {
			vrt.Assert(ad.Props[i].Name == req.Props[i], where+": requested vCard property name")
		}
	}
}

var verifTests = []FilterTest{"", FilterAnyOf, FilterAllOf}
var verifMatchTypes = []MatchType{"", MatchEquals, MatchContains, MatchStartsWith, MatchEndsWith}

func symWireTextMatch() TextMatch {
	return TextMatch{Text: vrt.Str("text"), NegateCondition: vrt.Bool("negate"), MatchType: verifMatchTypes[vrt.Choose("matchtype", len(verifMatchTypes))]}
}

func symDataRequest() AddressDataRequest {
	req := AddressDataRequest{AllProp: vrt.Bool("allprop")}
	n := vrt.Choose("nprops", 3)
	for i := 0; i < n; i++ {
		req.Props = append(req.Props, vrt.Str("propname"))
	}
	return req
}

func symClientQuery() *AddressBookQuery {
	q := &AddressBookQuery{DataRequest: symDataRequest(), FilterTest: verifTests[vrt.Choose("qtest", len(verifTests))], Limit: vrt.Int("limit")}
	npf := vrt.Choose("npf", vrt.Param("maxpf", 2)+1)
	for i := 0; i < npf; i++ {
		pf := PropFilter{Name: vrt.Str("pfname"), Test: verifTests[vrt.Choose("pftest", len(verifTests))], IsNotDefined: vrt.Bool("isnotdefined")}
		ntm := vrt.Choose("ntm", vrt.Param("maxtm", 2)+1)
		for j := 0; j < ntm; j++ {
			pf.TextMatches = append(pf.TextMatches, symWireTextMatch())
		}
		if vrt.Choose("hasparam", 2) == 1 {
			par := ParamFilter{Name: vrt.Str("paramname"), IsNotDefined: vrt.Bool("param-isnotdefined")}
			if vrt.Choose("param-hastm", 2) == 1 {
				tm := symWireTextMatch()
				par.TextMatch = &tm
			}
			pf.Params = append(pf.Params, par)
		}
		q.PropFilters = append(q.PropFilters, pf)
	}
	return q
}

func newVerifClient(hc *internal.VerifHTTPClient) *Client {
	ic := internal.VerifNewClient(hc, "/dav/")
	return &Client{ic: ic}
}

// sendQuery runs QueryAddressBook and returns the document as the other
// side sees it (identity wire symbolically, real XML natively).
func sendQuery(q *AddressBookQuery, path string) (*addressbookQuery, http.Header, string, error) {
	internal.VerifResetWire()
	internal.VerifCopyHook = verifCopy
	hc := &internal.VerifHTTPClient{}
	c := newVerifClient(hc)
	_, err := c.QueryAddressBook(context.Background(), path, q)
	if err != nil {
		return nil, nil, "", err
	}
	if vrt.Symbolic() {
		doc, _ := internal.VerifSentBody.(*addressbookQuery)
		return doc, internal.VerifSentHeader, internal.VerifSentMethod, nil
	}
	var doc addressbookQuery
	if len(hc.Bodies) != 1 {
		return nil, nil, "", nil
	}
	if err := xml.Unmarshal(hc.Bodies[0], &doc); err != nil {
		vrt.Fail("the query document sent by the client is not readable: " + err.Error())
		return nil, nil, "", nil
	}
	return &doc, hc.Requests[0].Header, hc.Requests[0].Method, nil
}

// VerifH_C09_ClientQuery: every AddressBookQuery the API can express is sent
// as the addressbook-query it denotes; only genuinely inexpressible queries
// (is-not-defined together with text-match / param-filter) are refused.
func VerifH_C09_ClientQuery() {
	q := symClientQuery()
	doc, hdr, method, err := sendQuery(q, "/dav/ab/")
	expressible := true
	for _, pf := range q.PropFilters {
		if pf.IsNotDefined && (len(pf.TextMatches) > 0 || len(pf.Params) > 0) {
			expressible = false
		}
		for _, par := range pf.Params {
			if par.IsNotDefined && par.TextMatch != nil {
				expressible = false
			}
		}
	}
	vrt.Assert((err == nil) == expressible, "client refuses exactly the queries RFC 6352 cannot express")
	if err != nil || doc == nil {
		vrt.Reach("client-query/refused")
		return
	}
	vrt.Assert(method == "REPORT", "addressbook-query is sent as REPORT")
	vrt.Assert(hdr.Get("Depth") == "1", "addressbook-query carries Depth: 1")
	vrt.Assert(refTest(doc.Filter.Test) == normTest(q.FilterTest), "filter test")
	vrt.Assert(len(doc.Filter.Props) == len(q.PropFilters), "number of prop-filters")
	if len(doc.Filter.Props) == len(q.PropFilters) {
		for i := range q.PropFilters {
			checkPropFilterEq(&doc.Filter.Props[i], &q.PropFilters[i], "client")
		}
	}
	if q.Limit > 0 {
		vrt.Assert(doc.Limit != nil && doc.Limit.NResults == uint(q.Limit), "result limit")
	} else {
		vrt.Assert(doc.Limit == nil, "no limit element for an unlimited query")
	}
	checkDataReqEq(doc.Prop, &q.DataRequest, "client")
	vrt.Reach("client-query/sent")
}

// VerifH_C09_ClientMultiGet: hrefs in order, data request.
func VerifH_C09_ClientMultiGet() {
	internal.VerifResetWire()
	internal.VerifCopyHook = verifCopy
	mg := &AddressBookMultiGet{DataRequest: symDataRequest()}
	n := vrt.Choose("nhrefs", vrt.Param("maxhrefs", 3)+1)
	for i := 0; i < n; i++ {
		// arbitrary bytes (every value) so that any escaping/parsing on the
		// way is executed from the real net/url code
		mg.Paths = append(mg.Paths, "/dav/ab/"+vrt.StrN("name", 1+vrt.Choose("name-len", vrt.Param("namelen", 1))))
	}
	hc := &internal.VerifHTTPClient{}
	c := newVerifClient(hc)
	_, err := c.MultiGetAddressBook(context.Background(), "/dav/ab/", mg)
	vrt.Assert(err == nil, "multiget is always expressible")
	if err != nil {
		return
	}
	var doc *addressbookMultiget
	if vrt.Symbolic() {
		doc, _ = internal.VerifSentBody.(*addressbookMultiget)
	} else {
		doc = &addressbookMultiget{}
		if err := xml.Unmarshal(hc.Bodies[0], doc); err != nil {
			vrt.Fail("multiget document not readable: " + err.Error())
			return
		}
	}
	if n == 0 {
		vrt.Assert(len(doc.Hrefs) == 1 && doc.Hrefs[0].Path == "/dav/ab/", "multiget without paths addresses the collection itself")
	} else {
		vrt.Assert(len(doc.Hrefs) == n, "number of hrefs")
		if len(doc.Hrefs) == n {
			for i := range mg.Paths {
				vrt.Assert(doc.Hrefs[i].Path == mg.Paths[i], "hrefs in request order")
			}
		}
	}
	checkDataReqEq(doc.Prop, &mg.DataRequest, "client multiget")
	vrt.Reach("client-multiget")
}

// ---- wire -> backend -------------------------------------------------------

// symWireEnum passes an arbitrary attribute text through the enumeration's
// own UnmarshalText, as encoding/xml would; ok=false means the document is
// refused by the decoder.
// symEnumText: an attribute text: any opaque string, or len(sample)
// arbitrary bytes (byte-level code such as case folding can only act on the
// latter; the length is that of a valid word so that near misses exist; the
// bytes are ASCII).
func symEnumText(tag string, sample string) string {
	// one choice per path for all attribute texts: all opaque or all bytes
	if verifEnumForm < 0 {
		verifEnumForm = vrt.Choose("attribute-text-form", 2)
	}
	if verifEnumForm == 0 {
		return vrt.Str(tag)
	}
	// ASCII bytes: case folding of non-ASCII text goes through the Unicode
	// tables, which is out of reach; non-ASCII texts are in the opaque form
	return vrt.StrNIn(tag+"-bytes", len(sample), 0, 0x7f)
}

var verifEnumForm = -1

func symWireTest(tag string) (filterTest, bool) {
	if vrt.Choose(tag+"-present", 2) == 0 {
		return "", true
	}
	s := symEnumText(tag, "anyof")
	var ft filterTest
	err := ft.UnmarshalText([]byte(s))
	valid := s == "anyof" || s == "allof"
	vrt.Assert((err == nil) == valid, "filter test attribute: exactly anyof and allof are accepted")
	return ft, err == nil
}

func symWireMatchType(tag string) (matchType, bool) {
	if vrt.Choose(tag+"-present", 2) == 0 {
		return "", true
	}
	s := symEnumText(tag, "equals")
	var mt matchType
	err := mt.UnmarshalText([]byte(s))
	valid := s == "equals" || s == "contains" || s == "starts-with" || s == "ends-with"
	vrt.Assert((err == nil) == valid, "match-type attribute: exactly equals, contains, starts-with, ends-with are accepted")
	return mt, err == nil
}

func symWireNegate(tag string) (negateCondition, bool, bool) {
	if vrt.Choose(tag+"-present", 2) == 0 {
		return false, true, false
	}
	s := symEnumText(tag, "yes")
	var nc negateCondition
	err := nc.UnmarshalText([]byte(s))
	valid := s == "yes" || s == "no"
	vrt.Assert((err == nil) == valid, "negate-condition attribute: exactly yes and no are accepted")
	return nc, err == nil, s == "yes"
}

func symWireTextMatchEl() (*textMatch, bool, bool) {
	mt, ok1 := symWireMatchType("match-type")
	nc, ok2, want := symWireNegate("negate-condition")
	// the match text: opaque, or in the bytes form one or two arbitrary
	// printable ASCII bytes (blanks and XML metacharacters included)
	text := ""
	if verifEnumForm < 0 {
		verifEnumForm = vrt.Choose("attribute-text-form", 2)
	}
	if verifEnumForm == 0 {
		text = vrt.Str("text")
	} else {
		text = vrt.StrNIn("text-bytes", 1+vrt.Choose("text-len", 2), ' ', '~')
	}
	return &textMatch{Text: text, MatchType: mt, NegateCondition: nc}, ok1 && ok2, want
}

// VerifH_C09_ServerQuery: an RFC-conformant addressbook-query (as decoded
// wire struct; attribute values go through the real UnmarshalText) reaches
// the backend as the query it denotes.
func VerifH_C09_ServerQuery() {
	internal.VerifResetWire()
	verifEnumForm = -1
	internal.VerifCopyHook = verifCopy
	var doc addressbookQuery
	ok := true
	var ft filterTest
	ft, ok = symWireTest("filter-test")
	if !ok {
		vrt.Reach("server-query/refused-by-decoder")
		return
	}
	doc.Filter.Test = ft
	npf := vrt.Choose("npf", vrt.Param("maxpf", 2)+1)
	wantNeg := map[*textMatch]bool{}
	for i := 0; i < npf; i++ {
		el := propFilter{Name: vrt.Str("pfname")}
		t, tok := symWireTest("pf-test")
		if !tok {
			vrt.Reach("server-query/refused-by-decoder")
			return
		}
		el.Test = t
		if vrt.Bool("isnotdefined") {
			el.IsNotDefined = &struct{}{}
		} else {
			ntm := vrt.Choose("ntm", vrt.Param("maxtm", 1)+1)
			for j := 0; j < ntm; j++ {
				tm, tmok, neg := symWireTextMatchEl()
				if !tmok {
					vrt.Reach("server-query/refused-by-decoder")
					return
				}
				el.TextMatches = append(el.TextMatches, *tm)
				wantNeg[&el.TextMatches[len(el.TextMatches)-1]] = neg
			}
			if vrt.Choose("hasparam", 2) == 1 {
				par := paramFilter{Name: vrt.Str("paramname")}
				if vrt.Bool("param-isnotdefined") {
					par.IsNotDefined = &struct{}{}
				} else if vrt.Choose("param-hastm", 2) == 1 {
					tm, tmok, _ := symWireTextMatchEl()
					if !tmok {
						vrt.Reach("server-query/refused-by-decoder")
						return
					}
					par.TextMatch = tm
				}
				el.Params = append(el.Params, par)
			}
		}
		doc.Filter.Props = append(doc.Filter.Props, el)
	}
	hasLimit := vrt.Choose("haslimit", 2) == 1
	var nresults uint
	if hasLimit {
		nresults = vrt.Uint("nresults")
		doc.Limit = &limit{NResults: nresults}
	}
	// requested data
	ad := addressDataReq{}
	wantAll := vrt.Bool("allprop")
	var wantProps []string
	if wantAll {
		ad.Allprop = &struct{}{}
	} else {
		n := vrt.Choose("nprops", 3)
		for i := 0; i < n; i++ {
			name := vrt.Str("propname")
			ad.Props = append(ad.Props, prop{Name: name})
			wantProps = append(wantProps, name)
		}
	}
	var p *internal.Prop
	if vrt.Symbolic() {
		p, _ = internal.EncodeProp(&ad)
	} else {
		enc, _ := internal.EncodeProp(&ad)
		p = &internal.Prop{}
		if err := internal.VerifXMLRoundTrip(enc, p); err != nil {
			vrt.Fail("prop round trip: " + err.Error())
			return
		}
	}
	doc.Prop = p

	be := &verifBackend{principal: "/dav/u/", homeSet: "/dav/u/contacts/"}
	h := &Handler{Backend: be, Prefix: "/dav"}
	rec := newVerifRecorder()
	r := &http.Request{Method: "REPORT", URL: &url.URL{Path: "/dav/u/contacts/ab/"}, Header: http.Header{}}
	err := h.handleQuery(r, rec, &doc)
	vrt.Assert(err == nil, "a conformant addressbook-query is not refused")
	if err != nil {
		return
	}
	if hasLimit && nresults == 0 {
		// at most zero results: answering with an empty multi-status is right
		vrt.Assert(rec.code == 207, "nresults=0 yields an empty multi-status")
		vrt.Reach("server-query/zero-limit")
		return
	}
	q := be.query
	vrt.Assert(q != nil && len(be.paths) == 1 && be.paths[0] == "/dav/u/contacts/ab/", "query reaches the backend once, addressed to the request path")
	if q == nil {
		return
	}
	vrt.Assert(normTest(q.FilterTest) == refTest(doc.Filter.Test), "backend: filter test (absent means anyof)")
	vrt.Assert(len(q.PropFilters) == len(doc.Filter.Props), "backend: number of prop-filters")
	if len(q.PropFilters) == len(doc.Filter.Props) {
		for i := range q.PropFilters {
			checkPropFilterEq(&doc.Filter.Props[i], &q.PropFilters[i], "backend")
		}
	}
	if hasLimit {
		// a limit beyond the largest int is the largest int, not zero or "no limit"
		const maxInt = int(^uint(0) >> 1)
		if nresults > uint(maxInt) {
			vrt.Assert(q.Limit == maxInt, "backend: a result limit beyond the largest int stays a (huge) limit")
		} else {
			vrt.Assert(q.Limit > 0 && uint(q.Limit) == nresults, "backend: result limit")
		}
	} else {
		vrt.Assert(q.Limit <= 0, "backend: no limit")
	}
	vrt.Assert(q.DataRequest.AllProp == wantAll, "backend: all-properties flag")
	vrt.Assert(len(q.DataRequest.Props) == len(wantProps), "backend: number of requested properties")
	if len(q.DataRequest.Props) == len(wantProps) {
		for i := range wantProps {
			vrt.Assert(q.DataRequest.Props[i] == wantProps[i], "backend: requested property name")
		}
	}
	vrt.Reach("server-query/delivered")
}
