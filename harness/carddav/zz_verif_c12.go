//go:build verif

package carddav

import (
	"strings"

	vrt "github.com/emersion/go-webdav/internal/zz_verifrt"
)

// verifSegment: an arbitrary path segment of 1..maxlen bytes: no '/', and
// not "." or ".." (dot segments are normalised away by design).
func verifSegment(tag string, maxlen int) string {
	n := 1 + vrt.Choose(tag+"-len", maxlen)
	s := vrt.StrN(tag, n)
	for i := 0; i < n; i++ {
		vrt.Assume(s[i] != '/')
	}
	vrt.Assume(s != "." && s != "..")
	return s
}

// VerifH_C12_Classify: resourceTypeAtPath depends only on the number of
// segments below the prefix: prefix of 0..maxprefix arbitrary segments in
// both spellings (handed over the way ServeHTTP does, trailing slash
// trimmed), remainder of 0..5 arbitrary segments, with or without a
// trailing slash.
func VerifH_C12_Classify() {
	seglen := vrt.Param("seglen", 1)
	np := vrt.Choose("prefix-segments", vrt.Param("maxprefix", 2)+1)
	prefix := ""
	for i := 0; i < np; i++ {
		prefix += "/" + verifSegment("pseg", seglen)
	}
	configured := prefix
	if vrt.Choose("prefix-trailing-slash", 2) == 1 {
		configured += "/"
	}
	b := backend{Prefix: strings.TrimSuffix(configured, "/")} // as Handler.ServeHTTP does
	nr := vrt.Choose("segments-below-prefix", 6)
	reqPath := prefix
	for i := 0; i < nr; i++ {
		reqPath += "/" + verifSegment("seg", seglen)
	}
	if reqPath == "" || vrt.Choose("trailing-slash", 2) == 1 {
		reqPath += "/"
	}
	got := b.resourceTypeAtPath(reqPath)
	vrt.Assert(int(got) == nr, "resource level is the number of path segments below the prefix")
	vrt.Reach("classified")
}
