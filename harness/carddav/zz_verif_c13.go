//go:build verif

package carddav

import (
	"bytes"
	"encoding/xml"
	"fmt"
	"io"
	"io/ioutil"
	"net/http"
	"net/url"
	"regexp"

	"github.com/emersion/go-vcard"

	"github.com/emersion/go-webdav/internal"
	vrt "github.com/emersion/go-webdav/internal/zz_verifrt"
)

var verifMethods = []string{"OPTIONS", "GET", "HEAD", "PUT", "DELETE", "PROPFIND", "PROPPATCH", "MKCOL", "COPY", "MOVE", "REPORT"}

var verifLevelPaths = []string{"/dav/", "/dav/u/", "/dav/u/contacts/", "/dav/u/contacts/ab/", "/dav/u/contacts/ab/o.vcf", "/dav/u/contacts/ab/o/x"}

var verifVCardFails bool

func verifStubVCardDecode(dec *vcard.Decoder) (vcard.Card, error) {
	if verifVCardFails {
		return nil, fmt.Errorf("vcard: malformed")
	}
	return verifValidCard(), nil
}

func verifValidCard() vcard.Card {
	return vcard.Card{vcard.FieldVersion: []*vcard.Field{{Value: "3.0"}}, vcard.FieldFormattedName: []*vcard.Field{{Value: "x"}}}
}

type verifBody struct {
	empty bool
	fails bool
}

// verifBodyUnreadable: the request body fails on its first Read (a broken
// chunk header, a body closed by middleware).
var verifBodyUnreadable bool

func (b *verifBody) Read(p []byte) (int, error) {
	if b.fails {
		return 0, io.ErrUnexpectedEOF
	}
	if b.empty {
		return 0, io.EOF
	}
	if len(p) == 0 {
		return 0, nil
	}
	p[0] = '<'
	b.empty = true
	return 1, nil
}
func (b *verifBody) Close() error { return nil }

const verifValidVCard = "BEGIN:VCARD\r\nVERSION:3.0\r\nFN:x\r\nEND:VCARD\r\n"

func verifRequest(method, path string, hdr http.Header, xmlBody interface{}, xmlBroken bool, rawBody string, emptyBody bool) *http.Request {
	r := &http.Request{Method: method, URL: &url.URL{Path: path}, Header: hdr}
	internal.VerifRequestBody, internal.VerifRequestBodyErr = xmlBody, xmlBroken
	if verifBodyUnreadable {
		r.Body = &verifBody{fails: true}
		return r
	}
	if vrt.Symbolic() {
		r.Body = &verifBody{empty: emptyBody}
		return r
	}
	switch {
	case emptyBody:
		r.Body = ioutil.NopCloser(bytes.NewReader(nil))
	case rawBody != "":
		r.Body = ioutil.NopCloser(bytes.NewReader([]byte(rawBody)))
	case xmlBroken && internal.VerifRequestBodyRepairable && xmlBody != nil:
		b, err := xml.Marshal(xmlBody)
		if err != nil {
			b = []byte("<marshal-error")
		}
		r.Body = ioutil.NopCloser(bytes.NewReader(internal.VerifUnquoteFirstAttr(b)))
	case xmlBroken || xmlBody == nil:
		r.Body = ioutil.NopCloser(bytes.NewReader([]byte("<broken")))
	default:
		if rr, ok := xmlBody.(*reportReq); ok {
			switch {
			case rr.Query != nil:
				xmlBody = rr.Query
			case rr.Multiget != nil:
				xmlBody = rr.Multiget
			default:
				xmlBody = &internal.PropFind{AllProp: &struct{}{}} // wrongly rooted
			}
		}
		b, err := xml.Marshal(xmlBody)
		if err != nil {
			b = []byte("<marshal-error")
		}
		if verifForeignProp {
			b = regexp.MustCompile(`<prop xmlns="urn:ietf:params:xml:ns:carddav"`).ReplaceAll(b, []byte(`<prop xmlns="DAV:"`))
		}
		r.Body = ioutil.NopCloser(bytes.NewReader(b))
	}
	return r
}

func symHeaderValue(hdr http.Header, name string, literals []string) (string, bool) {
	k := vrt.Choose(name+"-form", len(literals)+2)
	switch {
	case k == 0:
		return "", false
	case k <= len(literals):
		hdr.Set(name, literals[k-1])
		return literals[k-1], true
	}
	v := vrt.Str(name)
	vrt.Assume(v != "")
	hdr[name] = []string{v}
	return v, true
}

// symBroken: the body is not XML at all (nil), or it is not well-formed in a
// way a decoder that is not strict repairs into the given document.
func symBroken(repaired interface{}) interface{} {
	if vrt.Choose("broken-kind", 2) == 1 {
		internal.VerifRequestBodyRepairable = true
		return repaired
	}
	return nil
}

// verifDecoderRefuses: an attribute text the real enumeration decoder
// refuses: the XML decoder fails on the document (natively a broken body).
var verifDecoderRefuses bool
var verifForeignProp bool

func symReportBody() (interface{}, bool) {
	switch vrt.Choose("report-kind", 3) {
	case 0:
		q := &addressbookQuery{}
		malformed := false
		if vrt.Choose("hasfilter", 2) == 1 {
			pf := propFilter{Name: vrt.Str("pfname")}
			if vrt.Bool("pf-isnotdefined") {
				pf.IsNotDefined = &struct{}{}
			}
			if vrt.Choose("pf-hastext", 2) == 1 {
				tm := textMatch{Text: vrt.Str("text")}
				if vrt.Choose("tm-has-match-type", 2) == 1 {
					// any attribute text, through the real decoder of the enumeration
					text := symEnumText("match-type", "equals")
					var mt matchType
					if err := mt.UnmarshalText([]byte(text)); err != nil {
						verifDecoderRefuses = true
					} else {
						tm.MatchType = mt
					}
					if text != "equals" && text != "contains" && text != "starts-with" && text != "ends-with" {
						malformed = true
					}
				}
				pf.TextMatches = append(pf.TextMatches, tm)
				if pf.IsNotDefined != nil {
					malformed = true
				}
			}
			if vrt.Choose("pf-has-test", 2) == 1 {
				text := symEnumText("pf-test", "anyof")
				var ft filterTest
				if err := ft.UnmarshalText([]byte(text)); err != nil {
					verifDecoderRefuses = true
				} else {
					pf.Test = ft
				}
				if text != "anyof" && text != "allof" {
					malformed = true
				}
			}
			if vrt.Choose("pf-hasparam", 2) == 1 {
				par := paramFilter{Name: vrt.Str("paramname")}
				if vrt.Bool("param-isnotdefined") {
					par.IsNotDefined = &struct{}{}
				}
				if vrt.Choose("param-hastext", 2) == 1 {
					par.TextMatch = &textMatch{Text: vrt.Str("paramtext")}
					if par.IsNotDefined != nil {
						malformed = true
					}
				}
				pf.Params = append(pf.Params, par)
				if pf.IsNotDefined != nil {
					malformed = true
				}
			}
			q.Filter.Props = append(q.Filter.Props, pf)
		}
		if vrt.Choose("haslimit", 2) == 1 {
			q.Limit = &limit{NResults: vrt.Uint("nresults")}
		}
		switch vrt.Choose("query-propform", 3) {
		case 0:
			q.AllProp = &struct{}{}
		case 1:
			q.PropName = &struct{}{}
		case 2:
			ad := &addressDataReq{}
			if vrt.Bool("ad-allprop") {
				ad.Allprop = &struct{}{}
			}
			switch vrt.Choose("ad-hasprop", 3) {
			case 1:
				ad.Props = append(ad.Props, prop{Name: "FN"})
				if ad.Allprop != nil {
					malformed = true
				}
			case 2:
				// a child named prop that is not CARDDAV:prop (natively
				// <prop xmlns="DAV:" name="FN"/>): the typed decode of the
				// raw address-data element fails
				ad.Props = append(ad.Props, prop{Name: "FN"})
				internal.VerifRawDecodeBad = ad
				verifForeignProp = true
				malformed = true
			}
			p, _ := internal.EncodeProp(ad)
			q.Prop = p
		}
		return q, malformed
	case 1:
		mg := &addressbookMultiget{}
		n := vrt.Choose("nhrefs", 3)
		for i := 0; i < n; i++ {
			mg.Hrefs = append(mg.Hrefs, internal.Href{Path: "/dav/u/contacts/ab/" + string(rune('a'+i)) + ".vcf"})
		}
		mg.AllProp = &struct{}{}
		return mg, false
	}
	return nil, true
}

// VerifH_C13_Handler: as the CalDAV harness, for the CardDAV handler.
func VerifH_C13_Handler() {
	internal.VerifResetWire()
	verifBodyUnreadable = false
	defer func() { verifBodyUnreadable = false }()
	verifDecoderRefuses, verifForeignProp = false, false
	verifEnumForm = 0 // attribute texts opaque here; their bytes are the subject of VerifH_C13_Enumerations
	internal.VerifCopyHook = verifCopy
	be := &verifBackend{principal: "/dav/u/", homeSet: "/dav/u/contacts/"}
	be.books = []AddressBook{{Path: "/dav/u/contacts/ab/", Name: "ab"}}
	be.objects = []AddressObject{{Path: "/dav/u/contacts/ab/o.vcf", ETag: "e", Card: verifValidCard()}}
	h := &Handler{Backend: be, Prefix: "/dav"}

	method := ""
	mi := vrt.Choose("method", len(verifMethods)+1)
	if mi < len(verifMethods) {
		method = verifMethods[mi]
	} else {
		method = vrt.Str("unknown-method")
		for _, m := range verifMethods {
			vrt.Assume(method != m)
		}
	}
	level := vrt.Choose("level", len(verifLevelPaths))
	deep := vrt.Param("deep", 0) == 1
	if method == "REPORT" && !deep {
		// the REPORT body interpretations do not depend on the level: two
		// levels only (all six with parameter deep)
		vrt.Assume(level == 3 || level == 4)
	}
	path := verifLevelPaths[level]
	hdr := http.Header{}
	malformed := false
	rawBody := ""
	emptyBody := false
	var xmlBody interface{}
	xmlBroken := false

	switch method {
	case "DELETE":
		// RFC 4918 9.6.1: any Depth but infinity is invalid for DELETE
		if d, ok := symHeaderValue(hdr, "Depth", []string{"0", "1", "infinity"}); ok && d != "infinity" {
			malformed = true
		}
	case "PROPFIND":
		if d, ok := symHeaderValue(hdr, "Depth", []string{"0", "1", "infinity"}); ok && d != "0" && d != "1" && d != "infinity" {
			malformed = true
		}
		switch vrt.Choose("propfind-body", 4) {
		case 0:
			emptyBody = true
		case 1:
			hdr.Set("Content-Type", "text/xml")
			xmlBroken = true
			malformed = true
			xmlBody = symBroken(&internal.PropFind{AllProp: &struct{}{}})
		case 2:
			switch vrt.Choose("propfind-content-type", 3) {
			case 0:
				hdr.Set("Content-Type", "application/xml; charset=utf-8")
			case 1:
				hdr.Set("Content-Type", "text/xml")
			case 2:
				// a media type parameter without a value: not a valid Content-Type
				hdr.Set("Content-Type", "text/xml;charset")
				malformed = true
			}
			pf := &internal.PropFind{}
			switch vrt.Choose("propfind-form", 6) {
			case 0:
				pf.AllProp = &struct{}{}
			case 1:
				pf.PropName = &struct{}{}
			case 2:
				pf.Prop = &internal.Prop{Raw: []internal.RawXMLValue{*internal.NewRawXMLElement(internal.GetETagName, nil, nil)}}
			case 3:
				malformed = true // none of the three forms
			case 4:
				// propname, allprop and prop are mutually exclusive (RFC 4918 14.20)
				pf.AllProp = &struct{}{}
				pf.PropName = &struct{}{}
				malformed = true
			case 5:
				pf.AllProp = &struct{}{}
				pf.Prop = &internal.Prop{Raw: []internal.RawXMLValue{*internal.NewRawXMLElement(internal.GetETagName, nil, nil)}}
				malformed = true
			}
			xmlBody = pf
		case 3:
			hdr.Set("Content-Type", "text/plain")
			rawBody = "x"
			malformed = true
		}
	case "REPORT":
		switch vrt.Choose("report-ct", 4) {
		case 0:
			hdr.Set("Content-Type", "text/xml")
		case 1:
			hdr.Set("Content-Type", "application/xml")
		case 3:
			hdr.Set("Content-Type", "application/xml; charset")
			malformed = true
		case 2:
			hdr.Set("Content-Type", "text/vcard")
			malformed = true
		}
		if hdr.Get("Content-Type") != "text/xml" && !deep {
			// the other announcements carry one plain well-formed query
			xmlBody = &reportReq{Query: &addressbookQuery{AllProp: &struct{}{}}}
		} else if vrt.Choose("report-broken", 2) == 1 {
			xmlBroken = true
			malformed = true
		} else {
			var bad bool
			xmlBody, bad = symReportBody()
			if bad {
				malformed = true
			}
			if verifDecoderRefuses {
				xmlBroken = true
			}
			if xmlBody != nil {
				switch b := xmlBody.(type) {
				case *addressbookQuery:
					xmlBody = &reportReq{Query: b}
				case *addressbookMultiget:
					xmlBody = &reportReq{Multiget: b}
				}
			} else {
				xmlBody = &reportReq{}
			}
		}
	case "PUT":
		cts := []string{"", "text/vcard", "text/vcard; charset=utf-8", "text/plain", ";;bad", "text/vcard;charset"}
		ct := cts[vrt.Choose("content-type", len(cts))]
		if ct != "" {
			hdr.Set("Content-Type", ct)
		}
		if ct != "text/vcard" && ct != "text/vcard; charset=utf-8" {
			malformed = true
		}
		verifVCardFails = vrt.Choose("vcard-decodes", 2) == 0
		if verifVCardFails {
			malformed = true
			rawBody = "BEGIN:VCARD\r\nBROKEN"
		} else {
			rawBody = verifValidVCard
		}
		symHeaderValue(hdr, "If-Match", []string{"*", "\"e\""})
		symHeaderValue(hdr, "If-None-Match", []string{"*"})
	case "MKCOL":
		switch vrt.Choose("mkcol-body", 4) {
		case 3:
			// the body cannot be read at all: the request cannot be
			// interpreted, nothing may be created
			hdr.Set("Content-Type", "text/xml")
			verifBodyUnreadable = true
			xmlBroken = true
			if level == 3 {
				malformed = true
			}
		case 0:
			emptyBody = true
		case 1:
			hdr.Set("Content-Type", "text/xml")
			xmlBroken = true
			if level == 3 {
				malformed = true
			}
			xmlBody = symBroken(&mkcolReq{ResourceType: *internal.NewResourceType(internal.CollectionName, addressBookName), DisplayName: "x"})
		case 2:
			hdr.Set("Content-Type", "text/xml")
			m := &mkcolReq{DisplayName: vrt.Str("displayname")}
			m.Description.Description = vrt.Str("description")
			if vrt.Bool("mkcol-isaddressbook") {
				m.ResourceType = *internal.NewResourceType(internal.CollectionName, addressBookName)
			} else {
				m.ResourceType = *internal.NewResourceType(internal.CollectionName)
				if level == 3 {
					malformed = true
				}
			}
			xmlBody = m
		}
	case "COPY", "MOVE":
		switch vrt.Choose("destination", 3) {
		case 0:
			malformed = true
		case 1:
			hdr.Set("Destination", "http://dav.example/dav/u/contacts/ab/p.vcf")
		case 2:
			hdr.Set("Destination", "http://dav.example/%zz")
			malformed = true
		}
		if o, ok := symHeaderValue(hdr, "Overwrite", []string{"T", "F"}); ok && o != "T" && o != "F" {
			malformed = true
		}
		if d, ok := symHeaderValue(hdr, "Depth", []string{"0", "infinity"}); ok && d != "0" && d != "1" && d != "infinity" {
			malformed = true
		}
	case "PROPPATCH":
		switch vrt.Choose("proppatch-body", 2) {
		case 0:
			hdr.Set("Content-Type", "text/xml")
			xmlBroken = true
			malformed = true
		case 1:
			hdr.Set("Content-Type", "text/xml")
			xmlBody = &internal.PropertyUpdate{}
		}
	}

	r := verifRequest(method, path, hdr, xmlBody, xmlBroken, rawBody, emptyBody)
	rec := newVerifRecorder()
	panicked := interface{}(nil)
	func() {
		defer func() { panicked = recover() }()
		h.ServeHTTP(rec, r)
	}()
	vrt.Assert(panicked == nil, "handler must not panic")
	if panicked != nil {
		return
	}
	if rec.code == 0 {
		rec.code = 200
	}
	mname := method
	if mi >= len(verifMethods) {
		mname = "unknown-method"
	}
	if malformed {
		vrt.Assert(rec.code >= 400 && rec.code < 500, "malformed "+mname+" request must be answered 4xx")
		vrt.Assert(be.mutations == 0, "malformed "+mname+" request must not reach a create/update/delete call of the backend")
		vrt.Reach("handler/malformed")
	} else {
		vrt.Assert(rec.code < 500 || rec.code == 501, "well-formed "+mname+" request must not fail with a server error")
		vrt.Reach("handler/wellformed")
	}
}

// VerifH_C13_Enumerations: the decoders of the enumeration attributes
// (filter test, match-type, negate-condition) accept exactly the words RFC
// 6352 defines, for opaque texts of any length and for every byte string of
// a valid word's length (near misses such as other letter case); whatever
// they refuse makes the XML decoder fail, which DecodeXMLRequest answers 400.
func VerifH_C13_Enumerations() {
	verifEnumForm = -1
	switch vrt.Choose("attribute", 3) {
	case 0:
		text := symEnumText("test", "anyof")
		var ft filterTest
		err := ft.UnmarshalText([]byte(text))
		vrt.Assert((err == nil) == (text == "anyof" || text == "allof"), "filter test attribute: exactly anyof and allof are accepted")
		if err == nil {
			vrt.Assert(string(ft) == text, "filter test attribute: decoded value")
		}
	case 1:
		text := symEnumText("match-type", "equals")
		var mt matchType
		err := mt.UnmarshalText([]byte(text))
		vrt.Assert((err == nil) == (text == "equals" || text == "contains" || text == "starts-with" || text == "ends-with"), "match-type attribute: exactly equals, contains, starts-with, ends-with are accepted")
		if err == nil {
			vrt.Assert(string(mt) == text, "match-type attribute: decoded value")
		}
	case 2:
		text := symEnumText("negate-condition", "yes")
		var nc negateCondition
		err := nc.UnmarshalText([]byte(text))
		vrt.Assert((err == nil) == (text == "yes" || text == "no"), "negate-condition attribute: exactly yes and no are accepted")
		if err == nil {
			vrt.Assert(bool(nc) == (text == "yes"), "negate-condition attribute: decoded value")
		}
	}
	vrt.Reach("enumerations")
}
