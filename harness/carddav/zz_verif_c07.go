//go:build verif

package carddav

import (
	"strings"

	"github.com/emersion/go-vcard"

	vrt "github.com/emersion/go-webdav/internal/zz_verifrt"
)

// ---- reference evaluator (RFC 6352 section 10.5), three-valued -----------
//
// tvU stands for "undefined because an unknown test / match-type value had
// to be interpreted": the implementation must then report an error. When
// the reference value is defined the implementation must return it, or an
// error if (and only if) an unknown enumeration value occurs in the query.

const (
	tvF = 0
	tvT = 1
	tvU = 2
)

func refBool(b bool) int {
	if b {
		return tvT
	}
	return tvF
}

func refCombine(test FilterTest, items []int) int {
	switch test {
	case FilterAnyOf, "":
		r := tvF
		for _, it := range items {
			if it == tvT {
				return tvT
			}
			if it == tvU {
				r = tvU
			}
		}
		return r
	case FilterAllOf:
		r := tvT
		for _, it := range items {
			if it == tvF {
				return tvF
			}
			if it == tvU {
				r = tvU
			}
		}
		return r
	}
	return tvU
}

func refTextMatch(tm TextMatch, value string) int {
	var hit bool
	switch tm.MatchType {
	case MatchEquals:
		hit = value == tm.Text
	case MatchContains, "":
		hit = strings.Contains(value, tm.Text)
	case MatchStartsWith:
		hit = strings.HasPrefix(value, tm.Text)
	case MatchEndsWith:
		hit = strings.HasSuffix(value, tm.Text)
	default:
		return tvU
	}
	return refBool(hit != tm.NegateCondition)
}

func refPropFilter(pf PropFilter, card vcard.Card) int {
	fields, present := card[pf.Name]
	present = present && len(fields) > 0
	if pf.IsNotDefined {
		return refBool(!present)
	}
	if !present {
		return tvF
	}
	if len(pf.TextMatches) == 0 {
		return tvT
	}
	items := make([]int, len(pf.TextMatches))
	for i, tm := range pf.TextMatches {
		items[i] = refTextMatch(tm, fields[0].Value)
	}
	return refCombine(pf.Test, items)
}

func refMatch(q *AddressBookQuery, card vcard.Card) int {
	if q == nil {
		return tvT
	}
	items := make([]int, len(q.PropFilters))
	for i, pf := range q.PropFilters {
		items[i] = refPropFilter(pf, card)
	}
	return refCombine(q.FilterTest, items)
}

func knownTest(t FilterTest) bool { return t == "" || t == FilterAnyOf || t == FilterAllOf }

func knownMatchType(t MatchType) bool {
	return t == "" || t == MatchEquals || t == MatchContains || t == MatchStartsWith || t == MatchEndsWith
}

func refHasUnknown(q *AddressBookQuery) bool {
	if !knownTest(q.FilterTest) {
		return true
	}
	for _, pf := range q.PropFilters {
		if !knownTest(pf.Test) {
			return true
		}
		for _, tm := range pf.TextMatches {
			if !knownMatchType(tm.MatchType) {
				return true
			}
		}
	}
	return false
}

// checkMatch states the C07 obligation for one Match call.
func checkMatch(q *AddressBookQuery, ao *AddressObject, tag string) {
	got, err := Match(q, ao)
	want := refMatch(q, ao.Card)
	if want == tvU {
		vrt.Assert(err != nil, tag+": unknown test or match type must be reported as an error")
		vrt.Reach(tag + "/undefined")
		return
	}
	if err != nil {
		vrt.Assert(refHasUnknown(q), tag+": error although every test and match type is known")
		vrt.Assert(!got, tag+": error together with a true result")
		vrt.Reach(tag + "/error-allowed")
		return
	}
	vrt.Assert(got == (want == tvT), tag+": Match result differs from RFC 6352 10.5 reference")
	vrt.Reach(tag + "/defined")
}

// symCard builds a card over the alphabet VERSION (always), A, B with
// symbolic presence and opaque values.
func symCard(nameA, nameB string) (vcard.Card, string, string) {
	card := vcard.Card{vcard.FieldVersion: []*vcard.Field{{Value: "3.0"}}}
	va, vb := vrt.Str("valA"), vrt.Str("valB")
	if vrt.Bool("hasA") {
		card[nameA] = []*vcard.Field{{Value: va}}
	}
	if vrt.Bool("hasB") {
		card[nameB] = []*vcard.Field{{Value: vb}}
	}
	return card, va, vb
}

func symTextMatch() TextMatch {
	return TextMatch{Text: vrt.Str("text"), NegateCondition: vrt.Bool("negate"), MatchType: MatchType(vrt.Str("matchtype"))}
}

// VerifH_C07_PropFilter: one prop-filter with 0..maxtm text-matches; all
// enumerations are opaque strings (so "unknown value" is every other
// string), all texts/values opaque, negate/is-not-defined/presence symbolic.
func VerifH_C07_PropFilter() {
	maxTM := vrt.Param("maxtm", 2)
	card, _, _ := symCard("EMAIL", "FN")
	pf := PropFilter{Name: vrt.Str("pfname"), Test: FilterTest(vrt.Str("pftest")), IsNotDefined: vrt.Bool("isnotdefined")}
	ntm := vrt.Choose("ntm", maxTM+1)
	for i := 0; i < ntm; i++ {
		pf.TextMatches = append(pf.TextMatches, symTextMatch())
	}
	q := &AddressBookQuery{PropFilters: []PropFilter{pf}, FilterTest: FilterTest(vrt.Str("qtest"))}
	ao := &AddressObject{Path: "/x", Card: card}
	checkMatch(q, ao, "prop-filter")
}

// VerifH_C07_Query: query-level combination of 0..maxpf prop-filters, each
// with at most one text-match (present only in the first tmin filters).
func VerifH_C07_Query() {
	maxPF := vrt.Param("maxpf", 2)
	tmIn := vrt.Param("tmin", 1)
	card, _, _ := symCard("EMAIL", "FN")
	q := &AddressBookQuery{FilterTest: FilterTest(vrt.Str("qtest"))}
	npf := vrt.Choose("npf", maxPF+1)
	for i := 0; i < npf; i++ {
		pf := PropFilter{Name: vrt.Str("pfname"), Test: FilterTest(vrt.Str("pftest")), IsNotDefined: vrt.Bool("isnotdefined")}
		if i < tmIn && vrt.Choose("hastm", 2) == 1 {
			pf.TextMatches = []TextMatch{symTextMatch()}
		}
		q.PropFilters = append(q.PropFilters, pf)
	}
	ao := &AddressObject{Path: "/x", Card: card}
	checkMatch(q, ao, "query")
	if vrt.Choose("nilquery", 2) == 1 {
		got, err := Match(nil, ao)
		vrt.Assert(err == nil && got, "nil query matches everything")
	}
}

// ---- Filter: selection, order, limit, projection, purity ------------------

func cardEq(a, b vcard.Card) bool {
	if len(a) != len(b) {
		return false
	}
	for k, fa := range a {
		fb, ok := b[k]
		if !ok || len(fa) != len(fb) {
			return false
		}
		for i := range fa {
			if fa[i].Value != fb[i].Value || fa[i].Group != fb[i].Group || len(fa[i].Params) != len(fb[i].Params) {
				return false
			}
		}
	}
	return true
}

func objEq(a, b AddressObject) bool {
	return a.Path == b.Path && a.ETag == b.ETag && a.ContentLength == b.ContentLength && a.ModTime.Equal(b.ModTime) && cardEq(a.Card, b.Card)
}

func queryEq(a, b *AddressBookQuery) bool {
	if a.FilterTest != b.FilterTest || a.Limit != b.Limit || a.DataRequest.AllProp != b.DataRequest.AllProp ||
		len(a.DataRequest.Props) != len(b.DataRequest.Props) || len(a.PropFilters) != len(b.PropFilters) {
		return false
	}
	for i := range a.DataRequest.Props {
		if a.DataRequest.Props[i] != b.DataRequest.Props[i] {
			return false
		}
	}
	for i := range a.PropFilters {
		x, y := a.PropFilters[i], b.PropFilters[i]
		if x.Name != y.Name || x.Test != y.Test || x.IsNotDefined != y.IsNotDefined || len(x.TextMatches) != len(y.TextMatches) {
			return false
		}
		for j := range x.TextMatches {
			if x.TextMatches[j] != y.TextMatches[j] {
				return false
			}
		}
	}
	return true
}

// VerifH_C07_Filter: Filter(query, objs) for 0..maxobj objects whose match
// status is symbolic (presence of EMAIL against one prop-filter with
// symbolic is-not-defined), Limit any 64-bit int, projection over 0..2
// requested names (opaque) or all-properties.
func VerifH_C07_Filter() {
	maxObj := vrt.Param("maxobj", 3)
	nobj := vrt.Choose("nobj", maxObj+1)
	ind := vrt.Bool("isnotdefined")
	limit := vrt.Int("limit")
	allProp := vrt.Bool("allprop")
	qtest := FilterTest(vrt.Str("qtest"))
	nreq := vrt.Choose("nreq", 3)
	reqNames := make([]string, nreq)
	for i := range reqNames {
		reqNames[i] = vrt.Str("reqname")
	}
	has := make([]bool, nobj)
	vals := make([]string, nobj)
	fns := make([]string, nobj)
	for i := 0; i < nobj; i++ {
		has[i] = vrt.Bool("hasEmail")
		vals[i] = vrt.Str("email")
		fns[i] = vrt.Str("fn")
	}
	twoEmails := vrt.Choose("two-emails", 2) == 1
	mkQuery := func() *AddressBookQuery {
		return &AddressBookQuery{
			DataRequest: AddressDataRequest{Props: append([]string(nil), reqNames...), AllProp: allProp},
			PropFilters: []PropFilter{{Name: vcard.FieldEmail, IsNotDefined: ind}},
			FilterTest:  qtest,
			Limit:       limit,
		}
	}
	mkObjs := func() []AddressObject {
		objs := make([]AddressObject, nobj)
		for i := 0; i < nobj; i++ {
			card := vcard.Card{vcard.FieldVersion: []*vcard.Field{{Value: "3.0"}}, vcard.FieldFormattedName: []*vcard.Field{{Value: fns[i]}}}
			if has[i] {
				card[vcard.FieldEmail] = []*vcard.Field{{Value: vals[i]}}
				if twoEmails {
					// a property may occur more than once: projection keeps all instances
					card[vcard.FieldEmail] = append(card[vcard.FieldEmail], &vcard.Field{Value: "second@example.org"})
				}
			}
			objs[i] = AddressObject{Path: "/o" + string(rune('0'+i)), ETag: "e" + string(rune('0'+i)), Card: card}
		}
		return objs
	}
	q, objs := mkQuery(), mkObjs()
	qCopy, objsCopy := mkQuery(), mkObjs()

	out, err := Filter(q, objs)

	// purity
	vrt.Assert(queryEq(q, qCopy), "Filter must not modify the query")
	for i := range objs {
		vrt.Assert(objEq(objs[i], objsCopy[i]), "Filter must not modify its input objects")
	}

	if !knownTest(qtest) {
		// with no objects no test has to be interpreted
		if nobj > 0 {
			vrt.Assert(err != nil, "Filter: unknown filter test must be reported as an error")
		}
		vrt.Reach("filter/unknown-test")
		return
	}
	vrt.Assert(err == nil, "Filter: unexpected error")
	if err != nil {
		return
	}
	// expected selection
	var want []int
	for i := 0; i < nobj; i++ {
		if has[i] != ind {
			if limit > 0 && len(want) >= limit {
				break
			}
			want = append(want, i)
		}
	}
	vrt.Assert(len(out) == len(want), "Filter: number of results (matches cut to the first Limit when Limit > 0)")
	if len(out) != len(want) {
		return
	}
	whole := allProp || nreq == 0
	for k, i := range want {
		got := out[k]
		vrt.Assert(got.Path == objsCopy[i].Path && got.ETag == objsCopy[i].ETag, "Filter: results in input order")
		if whole {
			vrt.Assert(cardEq(got.Card, objsCopy[i].Card), "Filter: whole card for all-properties / no selection")
			continue
		}
		// projection: VERSION plus requested ∩ present, nothing else
		src := objsCopy[i].Card
		for name, f := range got.Card {
			requested := name == vcard.FieldVersion
			for _, rn := range reqNames {
				if rn == name {
					requested = true
				}
			}
			vrt.Assert(requested, "Filter: projection contains a property that was not requested")
			sf, ok := src[name]
			same := ok && len(sf) == len(f)
			if same {
				for x := range sf {
					if sf[x].Value != f[x].Value {
						same = false
					}
				}
			}
			vrt.Assert(same, "Filter: projected property differs from the source (every instance is kept)")
		}
		_, hasVersion := got.Card[vcard.FieldVersion]
		vrt.Assert(hasVersion, "Filter: projection keeps VERSION")
		for _, rn := range reqNames {
			if _, inSrc := src[rn]; inSrc {
				_, inOut := got.Card[rn]
				vrt.Assert(inOut, "Filter: requested property present in the card is missing from the projection")
			}
		}
	}
	vrt.Reach("filter/selected")
	if vrt.Choose("nilquery", 2) == 1 {
		all, err := Filter(nil, objs)
		vrt.Assert(err == nil && len(all) == nobj, "Filter(nil) returns every object")
	}
}
