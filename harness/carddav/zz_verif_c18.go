//go:build verif

package carddav

import (
	"context"
	"net/http"
	"strings"
	"sync"

	"github.com/emersion/go-vcard"

	"github.com/emersion/go-webdav/internal"
	vrt "github.com/emersion/go-webdav/internal/zz_verifrt"
)

type verifOne struct{ method, path string }

// verifLockedBackend: the recording backend made safe for concurrent use, as
// the library requires of a Backend.
type verifLockedBackend struct {
	mu sync.Mutex
	*verifBackend
}

func (b *verifLockedBackend) ListAddressBooks(ctx context.Context) ([]AddressBook, error) {
	b.mu.Lock()
	defer b.mu.Unlock()
	return b.verifBackend.ListAddressBooks(ctx)
}
func (b *verifLockedBackend) GetAddressBook(ctx context.Context, path string) (*AddressBook, error) {
	b.mu.Lock()
	defer b.mu.Unlock()
	return b.verifBackend.GetAddressBook(ctx, path)
}
func (b *verifLockedBackend) CreateAddressBook(ctx context.Context, ab *AddressBook) error {
	b.mu.Lock()
	defer b.mu.Unlock()
	return b.verifBackend.CreateAddressBook(ctx, ab)
}
func (b *verifLockedBackend) DeleteAddressBook(ctx context.Context, path string) error {
	b.mu.Lock()
	defer b.mu.Unlock()
	return b.verifBackend.DeleteAddressBook(ctx, path)
}
func (b *verifLockedBackend) GetAddressObject(ctx context.Context, path string, req *AddressDataRequest) (*AddressObject, error) {
	b.mu.Lock()
	defer b.mu.Unlock()
	return b.verifBackend.GetAddressObject(ctx, path, req)
}
func (b *verifLockedBackend) ListAddressObjects(ctx context.Context, path string, req *AddressDataRequest) ([]AddressObject, error) {
	b.mu.Lock()
	defer b.mu.Unlock()
	return b.verifBackend.ListAddressObjects(ctx, path, req)
}
func (b *verifLockedBackend) QueryAddressObjects(ctx context.Context, path string, query *AddressBookQuery) ([]AddressObject, error) {
	b.mu.Lock()
	defer b.mu.Unlock()
	return b.verifBackend.QueryAddressObjects(ctx, path, query)
}
func (b *verifLockedBackend) PutAddressObject(ctx context.Context, path string, card vcard.Card, opts *PutAddressObjectOptions) (*AddressObject, error) {
	b.mu.Lock()
	defer b.mu.Unlock()
	return b.verifBackend.PutAddressObject(ctx, path, card, opts)
}
func (b *verifLockedBackend) DeleteAddressObject(ctx context.Context, path string) error {
	b.mu.Lock()
	defer b.mu.Unlock()
	return b.verifBackend.DeleteAddressObject(ctx, path)
}

func verifC18Handler() (*Handler, *verifBackend) {
	be := &verifBackend{principal: "/dav/u/", homeSet: "/dav/u/x/"}
	be.books = []AddressBook{{Path: "/dav/u/x/c/", Name: "c"}, {Path: "/dav/u/x/d/", Name: "d"}}
	be.objects = []AddressObject{
		{Path: "/dav/u/x/c/a.vcf", ETag: "ea", Card: verifValidCard()},
		{Path: "/dav/u/x/d/b.vcf", ETag: "eb", Card: verifValidCard()},
	}
	return &Handler{Backend: &verifLockedBackend{verifBackend: be}, Prefix: "/dav"}, be
}

// verifC18Request builds the request (in the calling goroutine: the request
// helpers of the harness keep notes in package variables).
func verifC18Request(r verifOne) *http.Request {
	hdr := http.Header{}
	if r.method == "PROPFIND" {
		hdr.Set("Depth", "0")
	}
	return verifRequest(r.method, r.path, hdr, nil, false, "", true)
}

func verifC18Serve(h *Handler, r *http.Request) *verifRecorder {
	rec := newVerifRecorder()
	h.ServeHTTP(rec, r)
	return rec
}

func verifC18Calls(be *verifBackend, path string) string {
	var l []string
	for i, c := range be.calls {
		if be.paths[i] == path {
			l = append(l, c)
		}
	}
	return strings.Join(l, ",")
}

// VerifH_C18_HandlerConcurrent: two requests for disjoint resources served by
// one Handler from two goroutines: each gets the status, headers, body and
// backend calls it gets when served alone, and no memory outside the
// harness's own bookkeeping is accessed by both without synchronisation.
func VerifH_C18_HandlerConcurrent() {
	internal.VerifResetWire()
	internal.VerifCopyHook = verifCopy
	methods := []string{"OPTIONS", "GET", "HEAD", "DELETE", "PROPFIND"}
	objs := [2]string{"/dav/u/x/c/a.vcf", "/dav/u/x/d/b.vcf"}
	colls := [2]string{"/dav/u/x/c/", "/dav/u/x/d/"}
	var reqs [2]verifOne
	for i := 0; i < 2; i++ {
		m := methods[vrt.Choose("method", len(methods))]
		p := objs[i]
		if m == "PROPFIND" && vrt.Choose("propfind-collection", 2) == 1 {
			p = colls[i]
		}
		reqs[i] = verifOne{m, p}
	}
	var alone [2]*verifRecorder
	var aloneCalls [2]string
	for i := range reqs {
		h, be := verifC18Handler()
		alone[i] = verifC18Serve(h, verifC18Request(reqs[i]))
		aloneCalls[i] = verifC18Calls(be, reqs[i].path)
	}
	h, be := verifC18Handler()
	var together [2]*verifRecorder
	done := make(chan int, 2)
	for i := 0; i < 2; i++ {
		i := i
		hr := verifC18Request(reqs[i])
		go func() {
			together[i] = verifC18Serve(h, hr)
			done <- i
		}()
	}
	ok := vrt.Terminates(func() {
		<-done
		<-done
	})
	vrt.Assert(ok, "both requests are answered")
	if !ok {
		return
	}
	for i := range reqs {
		a, t := alone[i], together[i]
		m := reqs[i].method
		vrt.Assert(t.code == a.code, m+": same status as when served alone")
		for _, k := range []string{"Etag", "Content-Type", "Content-Length", "Last-Modified", "Allow", "Dav", "Location"} {
			vrt.Assert(strings.Join(t.hdr[k], "|") == strings.Join(a.hdr[k], "|"), m+": same "+k+" header as when served alone")
		}
		if m != "PROPFIND" {
			vrt.Assert(strings.Join(t.parts, "") == strings.Join(a.parts, ""), m+": same body as when served alone")
		}
		vrt.Assert(verifC18Calls(be, reqs[i].path) == aloneCalls[i], m+": same backend calls as when served alone")
	}
	vrt.Assert(vrt.Races() == "", "no unsynchronised conflicting accesses: "+vrt.Races())
	vrt.Reach("both-answered")
}
