//go:build verif

package carddav

import (
	"context"
	"errors"
	"net/http"

	"github.com/emersion/go-webdav/internal"
	vrt "github.com/emersion/go-webdav/internal/zz_verifrt"
)

func symPropCodeC14(tag string) int {
	switch vrt.Choose(tag+"-status", 5) {
	case 0:
		return 200
	case 1:
		return 404
	case 2:
		return 403
	case 3:
		return 500
	}
	c := vrt.IntRange(tag + "-code", 100, 999)
	vrt.Assume(c != 200)
	return c
}

// VerifH_C14_Discovery: FindAddressBooks over a multi-status in which every
// property of the collection is present under 200, absent, or reported under
// 404 / 403 / 500 / an arbitrary other status (at most two disturbed at a
// time): no panic; it fails exactly when resourcetype is not delivered or an
// optional property failed with something other than 404; a property that is
// absent or failed never populates the result; a response-level failure of a
// member is an error, never a collection.
func VerifH_C14_Discovery() {
	internal.VerifResetWire()
	internal.VerifCopyHook = verifCopy
	type propSpec struct {
		present bool
		code    int
		val     interface{}
	}
	d1 := vrt.Choose("disturbed-property", 6) // 5 = none
	d2 := vrt.Choose("second-disturbed-property", 6)
	mk := func(i int, tag string, val interface{}) propSpec {
		sp := propSpec{present: true, code: 200, val: val}
		if i == d1 || i == d2 {
			if i != 0 && vrt.Choose(tag+"-absent", 2) == 1 {
				sp.present = false
			} else {
				sp.code = symPropCodeC14(tag)
			}
		}
		return sp
	}
	specs := []propSpec{
		mk(0, "resourcetype", internal.NewResourceType(internal.CollectionName, addressBookName)),
		mk(1, "displayname", &internal.DisplayName{Name: "name"}),
		mk(2, "description", &addressbookDescription{Description: "desc"}),
		mk(3, "max-resource-size", &maxResourceSize{Size: 77}),
		mk(4, "supported", &supportedAddressData{Types: []addressDataType{{ContentType: "text/vcard", Version: "4.0"}}}),
	}
	resp := internal.Response{Hrefs: []internal.Href{{Path: "/dav/u/h/c/"}}}
	for _, sp := range specs {
		if !sp.present {
			continue
		}
		if err := resp.EncodeProp(sp.code, sp.val); err != nil {
			vrt.Fail("cannot build response")
		}
	}
	ms := &internal.MultiStatus{Responses: []internal.Response{resp}}
	// optionally a second member: a plain collection, or one that failed as a whole
	second := vrt.Choose("second-member", 3)
	switch second {
	case 1:
		r2 := internal.Response{Hrefs: []internal.Href{{Path: "/dav/u/h/x/"}}}
		r2.EncodeProp(200, internal.NewResourceType(internal.CollectionName))
		ms.Responses = append(ms.Responses, r2)
	case 2:
		ms.Responses = append(ms.Responses, internal.Response{Hrefs: []internal.Href{{Path: "/dav/u/h/y/"}}, Status: &internal.Status{Code: 403}})
	}
	var c *Client
	if vrt.Symbolic() {
		sent := ms
		internal.VerifReplyMultiStatus = func(req *http.Request) (*internal.MultiStatus, error) { return sent, nil }
		c = &Client{ic: internal.VerifNewClient(&internal.VerifHTTPClient{}, "/dav/")}
	} else {
		b, err := internal.VerifMarshal(ms)
		if err != nil {
			vrt.Assume(false)
		}
		hc := &internal.VerifHTTPClient{Status: 207, Header: http.Header{"Content-Type": []string{"text/xml"}}, Body: b}
		var cerr error
		c, cerr = NewClient(hc, "http://dav.example/dav/")
		if cerr != nil {
			panic(cerr)
		}
	}
	var list []AddressBook
	var err error
	panicked := interface{}(nil)
	func() {
		defer func() { panicked = recover() }()
		list, err = c.FindAddressBooks(context.Background(), "/dav/u/h/")
	}()
	vrt.Assert(panicked == nil, "FindAddressBooks must not panic")
	if panicked != nil {
		return
	}
	ok200 := func(i int) bool { return specs[i].present && specs[i].code == 200 }
	absentOr404 := func(i int) bool { return !specs[i].present || specs[i].code == 404 }
	wantErr := !ok200(0) || second == 2
	for i := 1; i <= 4; i++ {
		if ok200(0) && !ok200(i) && !absentOr404(i) {
			wantErr = true
		}
	}
	vrt.Assert((err != nil) == wantErr, "FindAddressBooks fails exactly when a member or a needed property is reported with a non-success status")
	if err != nil {
		vrt.Assert(list == nil, "no data together with an error")
		if second != 2 {
			var he *internal.HTTPError
			vrt.Assert(errors.As(err, &he), "the error carries a status code")
		}
		vrt.Reach("discovery/error")
		return
	}
	vrt.Assert(len(list) == 1, "exactly the address book among the members is returned")
	if len(list) != 1 {
		return
	}
	got := &list[0]
	vrt.Assert(got.Path == "/dav/u/h/c/", "path")
	if ok200(1) {
		vrt.Assert(got.Name == "name", "display name")
	} else {
		vrt.Assert(got.Name == "", "a property that is absent or failed never populates the result")
	}
	if ok200(2) {
		vrt.Assert(got.Description == "desc", "description")
	} else {
		vrt.Assert(got.Description == "", "a property that is absent or failed never populates the result")
	}
	if ok200(3) {
		vrt.Assert(got.MaxResourceSize == 77, "size limit")
	} else {
		vrt.Assert(got.MaxResourceSize == 0, "a property that is absent or failed never populates the result")
	}
	if ok200(4) {
		vrt.Assert(len(got.SupportedAddressData) == 1 && got.SupportedAddressData[0].ContentType == "text/vcard" && got.SupportedAddressData[0].Version == "4.0", "supported address data")
	} else {
		vrt.Assert(len(got.SupportedAddressData) == 0, "a property that is absent or failed never populates the result")
	}
	vrt.Reach("discovery/ok")
}

// VerifH_C14_GetObject: GetAddressObject for every HTTP status (any 64-bit
// value), five Content-Types, a body that decodes or not, and ETag /
// Last-Modified / Content-Length headers that are absent, valid or outside
// their grammar: no panic; a status that is not 2xx is an error carrying the
// code; a wrong Content-Type or an undecodable body is an error; a header
// outside its grammar is an error or leaves its field empty, never a value;
// otherwise the object is delivered with exactly the announced metadata.
func VerifH_C14_GetObject() {
	internal.VerifResetWire()
	r := &internal.VerifResponder{Status: vrt.Int("status"), Header: http.Header{}}
	cts := []string{"", "text/vcard", "text/vcard; charset=utf-8", "text/plain", ";;bad"}
	cti := vrt.Choose("content-type", len(cts))
	if cts[cti] != "" {
		r.Header.Set("Content-Type", cts[cti])
	}
	ctOK := cti == 1 || cti == 2
	verifVCardFails = vrt.Choose("body-decodes", 2) == 0
	if verifVCardFails {
		r.Body = "BEGIN:VCARD\r\nBROKEN"
	} else {
		r.Body = verifValidVCard
	}
	etags := []string{"", "\"e\"", "e", "W/\"e\""}
	ei := vrt.Choose("etag-header", len(etags))
	if ei > 0 {
		r.Header.Set("ETag", etags[ei])
	}
	mods := []string{"", "Wed, 03 Feb 2021 04:05:06 GMT", "yesterday"}
	mi := vrt.Choose("last-modified-header", len(mods))
	if mi > 0 {
		r.Header.Set("Last-Modified", mods[mi])
	}
	lens := []string{"", "12", "twelve"}
	li := vrt.Choose("content-length-header", len(lens))
	if li > 0 {
		r.Header.Set("Content-Length", lens[li])
	}
	var c *Client
	if vrt.Symbolic() {
		c = &Client{ic: internal.VerifNewClient(r, "/dav/")}
	} else {
		var cerr error
		c, cerr = NewClient(r, "http://dav.example/dav/")
		if cerr != nil {
			panic(cerr)
		}
	}
	var obj *AddressObject
	var err error
	panicked := interface{}(nil)
	func() {
		defer func() { panicked = recover() }()
		obj, err = c.GetAddressObject(context.Background(), "/dav/u/h/c/o")
	}()
	vrt.Assert(panicked == nil, "GetAddressObject must not panic")
	if panicked != nil {
		return
	}
	is2xx := r.Status >= 200 && r.Status <= 299
	badHeader := ei >= 2 || mi == 2 || li == 2
	switch {
	case !is2xx:
		var he *internal.HTTPError
		vrt.Assert(err != nil && errors.As(err, &he) && he.Code == r.Status, "a status that is not 2xx is an error carrying the status code")
	case !ctOK || verifVCardFails:
		vrt.Assert(err != nil, "an answer that is not a readable card is an error")
	case !badHeader:
		vrt.Assert(err == nil && obj != nil, "a readable 2xx answer is delivered")
	}
	if err != nil {
		vrt.Assert(obj == nil, "no data together with an error")
		vrt.Reach("getobject/error")
		return
	}
	if obj == nil {
		vrt.Fail("neither data nor error")
		return
	}
	vrt.Assert(obj.Path == "/dav/u/h/c/o", "path")
	vrt.Assert(obj.ETag == "" || (ei == 1 && obj.ETag == "e"), "entity tag: the announced one, never something read from a header outside the grammar")
	vrt.Assert(obj.ModTime.IsZero() || (mi == 1 && obj.ModTime.Unix() == 1612325106), "modification time: the announced one or none")
	vrt.Assert(obj.ContentLength == 0 || (li == 1 && obj.ContentLength == 12), "content length: the announced one or none")
	if ei == 1 {
		vrt.Assert(obj.ETag == "e", "a valid ETag header is delivered")
	}
	vrt.Reach("getobject/ok")
}

// VerifH_C14_PutObject: PutAddressObject for every HTTP status and Location /
// ETag / Last-Modified headers absent, valid or outside their grammar: no
// panic; a status that is not 2xx is an error carrying the code; otherwise
// the object comes back under the announced location (or the request path)
// with the announced metadata; a header outside its grammar is an error or
// leaves its field empty, never a value.
func VerifH_C14_PutObject() {
	internal.VerifResetWire()
	verifResetCodec()
	r := &internal.VerifResponder{Status: vrt.Int("status"), Header: http.Header{}}
	locs := []string{"", "/dav/u/h/c/stored", "http://dav.example/dav/u/h/c/stored", "%zz"}
	lo := vrt.Choose("location-header", len(locs))
	if lo > 0 {
		r.Header.Set("Location", locs[lo])
	}
	etags := []string{"", "\"e\"", "e", "'e'"}
	ei := vrt.Choose("etag-header", len(etags))
	if ei > 0 {
		r.Header.Set("ETag", etags[ei])
	}
	mods := []string{"", "Wed, 03 Feb 2021 04:05:06 GMT", "yesterday"}
	mi := vrt.Choose("last-modified-header", len(mods))
	if mi > 0 {
		r.Header.Set("Last-Modified", mods[mi])
	}
	var c *Client
	if vrt.Symbolic() {
		c = &Client{ic: internal.VerifNewClient(r, "/dav/")}
	} else {
		var cerr error
		c, cerr = NewClient(r, "http://dav.example/dav/")
		if cerr != nil {
			panic(cerr)
		}
	}
	var obj *AddressObject
	var err error
	panicked := interface{}(nil)
	func() {
		defer func() { panicked = recover() }()
		obj, err = c.PutAddressObject(context.Background(), "/dav/u/h/c/o", verifValidCard())
	}()
	vrt.Assert(panicked == nil, "PutAddressObject must not panic")
	if panicked != nil {
		return
	}
	is2xx := r.Status >= 200 && r.Status <= 299
	badHeader := lo == 3 || ei >= 2 || mi == 2
	switch {
	case !is2xx:
		var he *internal.HTTPError
		vrt.Assert(err != nil && errors.As(err, &he) && he.Code == r.Status, "a status that is not 2xx is an error carrying the status code")
	case !badHeader:
		vrt.Assert(err == nil && obj != nil, "a 2xx answer with well-formed headers succeeds")
	}
	if err != nil {
		vrt.Assert(obj == nil, "no data together with an error")
		vrt.Reach("putobject/error")
		return
	}
	if obj == nil {
		vrt.Fail("neither data nor error")
		return
	}
	if lo == 1 || lo == 2 {
		vrt.Assert(obj.Path == "/dav/u/h/c/stored", "the announced location is handed back")
	} else {
		vrt.Assert(obj.Path == "/dav/u/h/c/o", "without a usable Location the request path is handed back")
	}
	vrt.Assert(obj.ETag == "" || (ei == 1 && obj.ETag == "e"), "entity tag: the announced one, never something read from a header outside the grammar")
	vrt.Assert(obj.ModTime.IsZero() || (mi == 1 && obj.ModTime.Unix() == 1612325106), "modification time: the announced one or none")
	if ei == 1 {
		vrt.Assert(obj.ETag == "e", "a valid ETag header is delivered")
	}
	vrt.Reach("putobject/ok")
}
