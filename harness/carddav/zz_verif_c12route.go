//go:build verif

package carddav

import (
	"net/http"
	"net/url"
	"strings"

	"github.com/emersion/go-webdav/internal"
	vrt "github.com/emersion/go-webdav/internal/zz_verifrt"
)

var verifPrefixes = []string{"", "/dav", "/dav/", "/x/y", "/x/y/"}

// VerifH_C12_Routing: for mount prefixes in both spellings and arbitrary
// segment names, every method at every depth below the prefix invokes the
// backend operation of that level with the request path unchanged; MKCOL
// is refused with 403 except at collection depth; a PROPFIND on a principal
// or home set other than the current user's exposes nothing. Also the
// C11 scope rule: Depth 0 / 1 / infinity at every level.
func VerifH_C12_Routing() {
	internal.VerifResetWire()
	internal.VerifCopyHook = verifCopy
	configured := verifPrefixes[vrt.Choose("prefix", len(verifPrefixes))]
	prefix := strings.TrimSuffix(configured, "/")
	// two-byte names for the levels that have foreign siblings, so that a
	// foreign name can be a proper prefix of the user's
	user := vrt.StrNIn("user", 2, 'a', 'z')
	home := vrt.StrNIn("home", 2, 'a', 'z')
	coll := vrt.StrNIn("collection", 1, 'a', 'z')
	obj := vrt.StrNIn("object", 1, 'a', 'z')
	principal := prefix + "/" + user + "/"
	homeSet := principal + home + "/"
	collPath := homeSet + coll + "/"
	objPath := collPath + obj + ".x"
	be := &verifBackend{principal: principal, homeSet: homeSet}
	be.books = []AddressBook{{Path: collPath, Name: "ab"}}
	be.objects = []AddressObject{{Path: objPath, ETag: "e", Card: verifValidCard()}}
	h := &Handler{Backend: be, Prefix: configured}

	level := vrt.Choose("level", 6)
	foreign := false
	var path string
	switch level {
	case 0:
		path = prefix + "/"
	case 1:
		path = principal
		if vrt.Choose("foreign-principal", 2) == 1 {
			other := vrt.StrNIn("other-user", 1+vrt.Choose("other-user-len", 2), 'a', 'z')
			vrt.Assume(other != user)
			path = prefix + "/" + other
			if vrt.Choose("foreign-trailing-slash", 2) == 1 {
				path += "/"
			}
			foreign = true
		}
	case 2:
		path = homeSet
		if vrt.Choose("foreign-homeset", 2) == 1 {
			other := vrt.StrNIn("other-home", 1+vrt.Choose("other-home-len", 2), 'a', 'z')
			vrt.Assume(other != home)
			path = principal + other
			if vrt.Choose("foreign-trailing-slash", 2) == 1 {
				path += "/"
			}
			foreign = true
		}
	case 3:
		path = collPath
	case 4:
		path = objPath
	case 5:
		path = objPath + "/deeper"
	}
	if level >= 1 && level <= 3 && vrt.Choose("no-trailing-slash", 2) == 1 && !foreign {
		// the same resource addressed without the trailing slash must be
		// classified identically
		vrt.Assert(int((&backend{Prefix: prefix}).resourceTypeAtPath(strings.TrimSuffix(path, "/"))) == level, "classification ignores a trailing slash")
	}
	methods := []string{"PROPFIND", "MKCOL", "DELETE", "GET", "OPTIONS"}
	method := methods[vrt.Choose("method", len(methods))]
	hdr := http.Header{}
	depth := ""
	if method == "PROPFIND" {
		depths := []string{"", "0", "1", "infinity"}
		depth = depths[vrt.Choose("depth", len(depths))]
		if depth != "" {
			hdr.Set("Depth", depth)
		}
	}
	r := verifRequest(method, path, hdr, nil, false, "", true)
	rec := newVerifRecorder()
	h.ServeHTTP(rec, r)
	if rec.code == 0 {
		rec.code = 200
	}
	// every path-carrying backend call is addressed to the request path
	for i, c := range be.calls {
		if strings.HasPrefix(c, "List") {
			continue
		}
		vrt.Assert(be.paths[i] == path, method+": backend operation receives the request path unchanged")
	}
	switch method {
	case "MKCOL":
		if level == 3 {
			vrt.Assert(len(be.calls) == 1 && be.calls[0] == "CreateAddressBook" && rec.code == 201, "MKCOL at collection depth creates the collection")
		} else {
			vrt.Assert(rec.code == 403 && be.mutations == 0, "MKCOL is refused with 403 except at collection depth")
		}
	case "GET":
		if level == 4 {
			vrt.Assert(len(be.calls) == 1 && be.calls[0] == "GetAddressObject", "GET on an object fetches that object")
		}
	case "DELETE":
		switch level {
		case 3:
			vrt.Assert(len(be.calls) == 1 && be.calls[0] == "DeleteAddressBook", "DELETE at collection depth deletes the address book")
		case 4:
			vrt.Assert(len(be.calls) == 1 && be.calls[0] == "DeleteAddressObject", "DELETE at object depth deletes the object")
		default:
			vrt.Assert(rec.code == 403 && be.mutations == 0, "DELETE elsewhere is refused")
		}
	case "PROPFIND":
		ms := verifServedMS(rec)
		vrt.Assert(rec.code == 207 && ms != nil, "PROPFIND is answered with a multi-status")
		if ms == nil {
			return
		}
		var hrefs []string
		for i := range ms.Responses {
			vrt.Assert(len(ms.Responses[i].Hrefs) == 1, "PROPFIND: exactly one href per response")
			if len(ms.Responses[i].Hrefs) == 1 {
				hrefs = append(hrefs, ms.Responses[i].Hrefs[0].Path)
			}
		}
		deep := depth == "" || depth == "infinity"
		var want []string
		switch {
		case foreign || level == 5:
			// nothing of the current user's may be exposed
			vrt.Assert(len(hrefs) == 0, "PROPFIND on a foreign principal / home set exposes none of the current user's resources")
			for _, c := range be.calls {
				vrt.Assert(!strings.HasPrefix(c, "List") && !strings.HasPrefix(c, "Get"), "PROPFIND on a foreign principal / home set does not list or fetch anything")
			}
			vrt.Reach("routing/propfind/foreign")
			return
		case level == 0:
			vrt.AssertKnown(len(hrefs) >= 1 && hrefs[0] == path, "PROPFIND: the addressed resource is reported under its own path", "C11-root-answers-with-principal-href", true)
			vrt.Reach("routing/propfind/root")
			return
		case level == 1:
			want = []string{principal}
			if depth != "0" {
				want = append(want, homeSet)
			}
			if deep {
				want = append(want, collPath, objPath)
			}
		case level == 2:
			want = []string{homeSet}
			if depth != "0" {
				want = append(want, collPath)
			}
			if deep {
				want = append(want, objPath)
			}
		case level == 3:
			want = []string{collPath}
			if depth != "0" {
				want = append(want, objPath)
			}
		case level == 4:
			want = []string{objPath}
		}
		vrt.Assert(len(hrefs) == len(want), "PROPFIND: exactly the resources in scope for the Depth, each once")
		if len(hrefs) == len(want) {
			for i := range want {
				vrt.Assert(hrefs[i] == want[i], "PROPFIND: responses carry the backend's paths")
			}
		}
	}
	vrt.Reach("routing/" + method)
}

// VerifH_C12_WellKnown: the first step of the discovery chain: a request of
// any method to the well-known URI is answered, under every mount prefix,
// with a redirect that keeps the method and the body (307 or 308: the
// client's PROPFIND must arrive as a PROPFIND) to exactly the backend's
// principal path; no backend operation other than the principal lookup runs.
func VerifH_C12_WellKnown() {
	internal.VerifResetWire()
	configured := verifPrefixes[vrt.Choose("prefix", len(verifPrefixes))]
	prefix := strings.TrimSuffix(configured, "/")
	principal := prefix + "/" + vrt.StrNIn("user", 2, 'a', 'z') + "/"
	be := &verifBackend{principal: principal, homeSet: principal + "h/"}
	h := &Handler{Backend: be, Prefix: configured}
	methods := []string{"PROPFIND", "GET", "OPTIONS", "REPORT", "PUT"}
	method := methods[vrt.Choose("method", len(methods))]
	r := verifRequest(method, "/.well-known/carddav", http.Header{}, nil, false, "", true)
	rec := newVerifRecorder()
	h.ServeHTTP(rec, r)
	vrt.Assert(rec.code == 307 || rec.code == 308, "well-known URI: answered with a redirect that preserves the method (307 or 308)")
	// the Location may be written in any equivalent form (escaped, absolute):
	// what counts is the path a client resolves it to
	loc, lerr := url.Parse(rec.hdr.Get("Location"))
	vrt.Assert(lerr == nil && loc != nil && loc.Path == principal, "well-known URI: redirects to exactly the backend's principal path")
	vrt.Assert(len(be.calls) == 0 && be.mutations == 0, "well-known URI: no backend operation is carried out")
	vrt.Reach("well-known/" + method)
}

func verifServedMS(rec *verifRecorder) *internal.MultiStatus {
	if vrt.Symbolic() {
		return internal.VerifServed
	}
	if rec.code != 207 {
		return nil
	}
	ms := &internal.MultiStatus{}
	if err := internal.VerifXMLRoundTripBytes([]byte(strings.Join(rec.parts, "")), ms); err != nil {
		vrt.Fail("multi-status body not readable: " + err.Error())
		return nil
	}
	return ms
}
