//go:build verif

// Package vrt is the verification runtime shared by all harnesses. Under
// the symbolic executor every function here is intercepted (the bodies are
// never run); compiled natively they read the solver's assignment from the
// replay file named by VERIF_REPLAY, so the very same harness function
// re-runs a counterexample against the real build.
package vrt

import (
	"encoding/hex"
	"encoding/json"
	"fmt"
	"os"
	"reflect"
	"runtime"
	"strconv"
	"strings"
	"sync"
	"time"
)

type entry struct {
	Kind string      `json:"kind"`
	V    interface{} `json:"v"`
	Hex  string      `json:"hex"`
	W    int         `json:"w"`
}

var (
	values   map[string]entry
	counts   = map[string]int{}
	loaded   bool
	Failures []string
	Skipped  string
	Reached  []string
	Observed []string
)

// Reset prepares a fresh native replay.
func Reset() {
	counts = map[string]int{}
	Failures = nil
	Skipped = ""
	Reached = nil
	Observed = nil
	loaded = false
	params = nil
	evLoaded = false
	baseGorSet = false
	if prevProcs != 0 {
		runtime.GOMAXPROCS(prevProcs)
		prevProcs = 0
	}
}

func load() {
	if loaded {
		return
	}
	loaded = true
	values = map[string]entry{}
	p := os.Getenv("VERIF_REPLAY")
	if p == "" {
		return
	}
	b, err := os.ReadFile(p)
	if err != nil {
		panic(err)
	}
	var doc struct {
		Values map[string]json.RawMessage `json:"values"`
	}
	if err := json.Unmarshal(b, &doc); err != nil {
		panic(err)
	}
	for k, raw := range doc.Values {
		var e entry
		if json.Unmarshal(raw, &e) == nil && e.Kind != "" {
			values[k] = e
		}
	}
}

func fresh(base string) string {
	load()
	k := counts[base]
	counts[base] = k + 1
	if k == 0 {
		return base
	}
	return fmt.Sprintf("%s#%d", base, k)
}

func intval(name string) int64 {
	k := fresh(name)
	e, ok := values[k]
	if !ok {
		return 0
	}
	switch v := e.V.(type) {
	case string:
		n, _ := strconv.ParseInt(v, 10, 64)
		return n
	case float64:
		return int64(v)
	}
	return 0
}

type skip struct{ why string }

// Symbolic reports whether the harness runs under the symbolic executor.
func Symbolic() bool { return false }

func Bool(name string) bool {
	k := fresh(name)
	e, ok := values[k]
	if !ok {
		return false
	}
	b, _ := e.V.(bool)
	return b
}

func Int(name string) int     { return int(intval(name)) }
func Int64(name string) int64 { return intval(name) }
func Int32(name string) int32 { return int32(intval(name)) }
func Uint(name string) uint   { return uint(intval(name)) }
func Byte(name string) byte   { return byte(intval(name)) }

// IntRange returns an integer in [lo,hi].
func IntRange(name string, lo, hi int) int {
	v := int(intval(name))
	if v < lo || v > hi {
		panic(skip{"IntRange outside range"})
	}
	return v
}

// Str is an arbitrary string of any length (opaque to the executor: only
// ==, +, Contains/HasPrefix/HasSuffix are available on it).
func Str(name string) string {
	k := fresh(name)
	e, ok := values[k]
	if !ok {
		return ""
	}
	b, _ := hex.DecodeString(e.Hex)
	return string(b)
}

// StrN is an arbitrary string of exactly n bytes (every byte symbolic).
func StrN(name string, n int) string {
	k := fresh(name)
	e, ok := values[k]
	b := make([]byte, n)
	if ok {
		d, _ := hex.DecodeString(e.Hex)
		copy(b, d)
	}
	return string(b)
}

// Choose is a case split over 0..n-1.
func Choose(name string, n int) int {
	v := int(intval(name))
	if v < 0 || v >= n {
		return 0
	}
	return v
}

// Assume restricts the inputs considered.
func Assume(cond bool) {
	if !cond {
		panic(skip{"assumption does not hold natively"})
	}
}

// Assert states the property.
func Assert(cond bool, msg string) {
	if !cond {
		Failures = append(Failures, msg)
	}
}

// AssertKnown is Assert with a listed known-finding region.
func AssertKnown(cond bool, msg string, findingID string, region bool) {
	if !cond {
		if region {
			Failures = append(Failures, msg+" [known:"+findingID+"]")
		} else {
			Failures = append(Failures, msg)
		}
	}
}

func Fail(msg string)    { Failures = append(Failures, msg) }
func Reach(label string) { Reached = append(Reached, label) }
func Observe(label string, v interface{}) {
	Observed = append(Observed, fmt.Sprintf("%s=%v", label, v))
}
func Unsupported(msg string) {}
func Concrete(s string) bool { return true }

// Run executes a harness natively and reports what happened.
var wedged bool

func Run(h func()) (failures []string, skipped string, panicked interface{}) {
	if wedged {
		return nil, "an earlier replay in this process left goroutines blocked for ever", nil
	}
	Reset()
	defer func() {
		failures = Failures
		if r := recover(); r != nil {
			if s, ok := r.(skip); ok {
				skipped = s.why
				return
			}
			panicked = r
		}
	}()
	h()
	return
}

// Time is an arbitrary instant: whole seconds, year 1..9999, in UTC.
func Time(name string) time.Time {
	sec := intval(name) // seconds since 0001-01-01T00:00:00Z
	return time.Unix(sec-62135596800, 0).UTC()
}

var params map[string]int

// Param returns a tier parameter (bound) of the check, or def.
func Param(name string, def int) int {
	if params == nil {
		params = map[string]int{}
		if p := os.Getenv("VERIF_REPLAY"); p != "" {
			if b, err := os.ReadFile(p); err == nil {
				var doc struct {
					Params map[string]int `json:"params"`
				}
				if json.Unmarshal(b, &doc) == nil && doc.Params != nil {
					params = doc.Params
				}
			}
		}
	}
	if v, ok := params[name]; ok {
		return v
	}
	return def
}

// Date is an arbitrary instant at midnight UTC (day number since year 1).
func Date(name string) time.Time {
	day := intval(name)
	return time.Unix(day*86400-62135596800, 0).UTC()
}

// DurationSec is an arbitrary whole number of seconds in [lo,hi].
func DurationSec(name string, lo, hi int64) time.Duration {
	s := intval(name)
	if s < lo || s > hi {
		panic(skip{"DurationSec outside range"})
	}
	return time.Duration(s) * time.Second
}

// ICalTime renders an instant as an iCalendar UTC DATE-TIME value.
func ICalTime(t time.Time) string { return t.UTC().Format("20060102T150405Z") }

// ICalDate renders an instant as an iCalendar DATE value.
func ICalDate(t time.Time) string { return t.UTC().Format("20060102") }

// ICalDuration renders a duration as an iCalendar DURATION value.
func ICalDuration(d time.Duration) string {
	s := int64(d / time.Second)
	if s < 0 {
		return "-PT" + strconv.FormatInt(-s, 10) + "S"
	}
	return "PT" + strconv.FormatInt(s, 10) + "S"
}

// TimeIn is an arbitrary instant (whole seconds) carried in one of three
// zones: 0 UTC, 1 a fixed +01:00 zone, 2 a fixed -05:00 zone.
func TimeIn(name string, zone int) time.Time {
	sec := intval(name)
	t := time.Unix(sec-62135596800, 0).UTC()
	switch zone {
	case 1:
		return t.In(time.FixedZone("VZ1", 3600))
	case 2:
		return t.In(time.FixedZone("VZ2", -18000))
	}
	return t
}

// StrNIn is an arbitrary string of exactly n bytes, each in [lo,hi].
func StrNIn(name string, n int, lo, hi byte) string {
	s := []byte(StrN(name, n))
	for i := range s {
		if s[i] < lo || s[i] > hi {
			s[i] = lo // value not fixed by the model
		}
	}
	return string(s)
}

// Text is an arbitrary string like Str; natively it is mapped to text that
// XML character data and header values can carry (bytes outside printable
// ASCII become letters), so that solver models survive the real wire.
func Text(name string) string {
	b := []byte(Str(name))
	for i, c := range b {
		if c < 0x20 || c > 0x7e {
			b[i] = 'A' + c%26
		}
	}
	return string(b)
}

// XMLShape: the static XML mapping of v's type as encoding/xml applies it
// when marshalling (names with namespaces, child order, occurrence). The
// symbolic executor computes the same string from go/types; see there for
// the grammar.
func XMLShape(v interface{}) string {
	t := reflect.TypeOf(v)
	if t == nil {
		return ""
	}
	for t.Kind() == reflect.Ptr {
		t = t.Elem()
	}
	if t.Kind() != reflect.Struct {
		return "!not-a-struct"
	}
	space, local := xmlNameTag(t)
	if local == "" {
		return "!no-XMLName"
	}
	var lines []string
	xmlStructShape(t, "{"+space+"}"+local, space, []reflect.Type{t}, &lines)
	return strings.Join(lines, "\n")
}

func xmlNameTag(t reflect.Type) (string, string) {
	f, ok := t.FieldByName("XMLName")
	if !ok {
		return "", ""
	}
	name := strings.Split(f.Tag.Get("xml"), ",")[0]
	if k := strings.LastIndex(name, " "); k >= 0 {
		return name[:k], name[k+1:]
	}
	return "", name
}

func xmlHasMethod(t reflect.Type, names ...string) bool {
	for _, tt := range []reflect.Type{t, reflect.PtrTo(t)} {
		for _, n := range names {
			if _, ok := tt.MethodByName(n); ok {
				return true
			}
		}
	}
	return false
}

func xmlStructShape(t reflect.Type, path string, ownSpace string, stack []reflect.Type, lines *[]string) {
	var items []string
	type sub struct {
		t     reflect.Type
		path  string
		space string
	}
	var subs []sub
	for i := 0; i < t.NumField(); i++ {
		f := t.Field(i)
		if f.Name == "XMLName" || f.PkgPath != "" {
			continue
		}
		tag := f.Tag.Get("xml")
		if tag == "-" {
			continue
		}
		parts := strings.Split(tag, ",")
		name := parts[0]
		flags := map[string]bool{}
		for _, p := range parts[1:] {
			flags[p] = true
		}
		space := ""
		if k := strings.LastIndex(name, " "); k >= 0 {
			space, name = name[:k], name[k+1:]
		}
		switch {
		case flags["attr"]:
			if name == "" {
				name = f.Name
			}
			it := "@{" + space + "}" + name
			at := f.Type
			for at.Kind() == reflect.Ptr {
				at = at.Elem()
			}
			if (flags["omitempty"] && at.Kind() != reflect.Struct) || xmlHasMethod(at, "MarshalXMLAttr") {
				it += "?"
			}
			items = append(items, it)
			continue
		case flags["chardata"], flags["cdata"]:
			items = append(items, "#text")
			continue
		case flags["innerxml"]:
			items = append(items, "#innerxml")
			continue
		case flags["comment"]:
			items = append(items, "#comment")
			continue
		}
		ft := f.Type
		occ := ""
		if ft.Kind() == reflect.Ptr {
			occ = "?"
			for ft.Kind() == reflect.Ptr {
				ft = ft.Elem()
			}
		}
		if ft.Kind() == reflect.Slice && ft.Elem().Kind() != reflect.Uint8 {
			occ = "*"
			ft = ft.Elem()
			for ft.Kind() == reflect.Ptr {
				ft = ft.Elem()
			}
		}
		if occ == "" && flags["omitempty"] {
			occ = "?"
		}
		if flags["any"] {
			items = append(items, "#any"+occ)
			continue
		}
		leaf := xmlHasMethod(ft, "MarshalXML", "MarshalText")
		isStruct := ft.Kind() == reflect.Struct
		if isStruct && !leaf {
			if s, l := xmlNameTag(ft); l != "" {
				space, name = s, l
			}
		}
		if name == "" {
			name = f.Name
		}
		if space == "" {
			space = ownSpace
		}
		it := "{" + space + "}" + name + occ
		if isStruct && !leaf && ft.NumField() > 0 {
			rec := false
			for _, s := range stack {
				if s == ft {
					rec = true
				}
			}
			if rec {
				it += "^"
			} else {
				subs = append(subs, sub{ft, path + "/{" + space + "}" + name, space})
			}
		}
		items = append(items, it)
	}
	*lines = append(*lines, path+" := "+strings.Join(items, " "))
	for _, s := range subs {
		xmlStructShape(s.t, s.path, s.space, append(append([]reflect.Type{}, stack...), s.t), lines)
	}
}

// ---- concurrency ---------------------------------------------------------

var (
	evMu       sync.Mutex
	evCond     = sync.NewCond(&evMu)
	evOrder    []string
	evDone     []bool
	evLoaded   bool
	baseGor    int
	baseGorSet bool
)

func loadEvents() {
	if evLoaded {
		return
	}
	evLoaded = true
	evOrder, evDone = nil, nil
	load()
	if e, ok := values["__events"]; ok {
		if l, ok := e.V.([]interface{}); ok {
			for _, x := range l {
				if s, ok := x.(string); ok {
					evOrder = append(evOrder, s)
				}
			}
		}
	}
	evDone = make([]bool, len(evOrder))
}

// Event marks a harness-level point of a concurrent run. Under the executor
// the order in which the events of a path occur is recorded with the model;
// natively an event waits (for at most 300 ms) until every event recorded
// before it has occurred, which steers the real scheduler towards the
// interleaving the solver found.
func Event(label string) {
	evMu.Lock()
	defer evMu.Unlock()
	loadEvents()
	idx := -1
	for i, l := range evOrder {
		if l == label && !evDone[i] {
			idx = i
			break
		}
	}
	if idx < 0 {
		return
	}
	deadline := time.Now().Add(300 * time.Millisecond)
	for {
		all := true
		for i := 0; i < idx; i++ {
			if !evDone[i] {
				all = false
			}
		}
		if all || time.Now().After(deadline) {
			break
		}
		t := time.AfterFunc(20*time.Millisecond, func() { evCond.Broadcast() })
		evCond.Wait()
		t.Stop()
	}
	evDone[idx] = true
	evCond.Broadcast()
}

// GoroutineBaseline notes the goroutines that exist before the harness starts
// any (first call only); Quiesce counts against it.
func GoroutineBaseline() {
	if !baseGorSet {
		baseGorSet = true
		baseGor = runtime.NumGoroutine()
	}
}

// Terminates runs f and reports whether it returned; natively f gets two
// seconds, under the executor "never" means blocked in every continuation.
func Terminates(f func()) bool {
	GoroutineBaseline()
	done := make(chan interface{}, 1)
	go func() {
		defer func() { done <- recover() }()
		f()
	}()
	select {
	case r := <-done:
		if r != nil {
			panic(r)
		}
		return true
	case <-time.After(2 * time.Second):
		// the goroutines left behind may hold locks of the code under test:
		// later replays in this process are not run
		wedged = true
		return false
	}
}

// Quiesce lets every other goroutine run until it has finished or is blocked
// for ever and returns the number of those still alive.
func Quiesce() int {
	if !baseGorSet {
		return 0
	}
	n := 0
	for i := 0; i < 50; i++ {
		n = runtime.NumGoroutine() - baseGor
		if n <= 0 {
			return 0
		}
		time.Sleep(10 * time.Millisecond)
	}
	return n
}

// SingleP makes the native run use one processor, so that per-processor caches
// of the runtime (sync.Pool) behave as on a single-core machine, where items
// put back are handed out again at once; undone by the next Reset.
func SingleP() {
	if prevProcs == 0 {
		prevProcs = runtime.GOMAXPROCS(1)
	}
}

var prevProcs int

// Races lists the unordered conflicting accesses seen so far (executor only).
func Races() string { return "" }
func RaceOff()      {}
func RaceOn()       {}
