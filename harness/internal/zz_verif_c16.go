//go:build verif

package internal

import (
	vrt "github.com/emersion/go-webdav/internal/zz_verifrt"
)

// VerifH_C16_Depth: ParseDepth accepts exactly "0", "1", "infinity" (input
// is an opaque string: every string of every length), round trip both ways.
func VerifH_C16_Depth() {
	s := vrt.Str("s")
	d, err := ParseDepth(s)
	valid := s == "0" || s == "1" || s == "infinity"
	vrt.Assert((err == nil) == valid, "ParseDepth accepts exactly 0, 1, infinity")
	if err == nil {
		vrt.Assert(d == DepthZero || d == DepthOne || d == DepthInfinity, "ParseDepth yields one of the three depths")
		vrt.Assert(d.String() == s, "Depth.String(ParseDepth(s)) == s")
		vrt.Reach("accepted")
	} else {
		vrt.Assert(d == 0, "rejected Depth yields the zero value")
		vrt.Reach("rejected")
	}
}

// VerifH_C16_DepthFormat: for each of the three values, parse(format(d)) == d;
// for every other Depth value String panics (and only then).
func VerifH_C16_DepthFormat() {
	d := Depth(vrt.Int("d"))
	valid := d == DepthZero || d == DepthOne || d == DepthInfinity
	panicked := false
	var s string
	func() {
		defer func() {
			if recover() != nil {
				panicked = true
			}
		}()
		s = d.String()
	}()
	vrt.Assert(panicked == !valid, "Depth.String panics exactly outside {0,1,infinity}")
	if !panicked {
		d2, err := ParseDepth(s)
		vrt.Assert(err == nil && d2 == d, "ParseDepth(Depth.String(d)) == d")
		vrt.Reach("formatted")
	} else {
		vrt.Reach("panicked")
	}
}

// VerifH_C16_Overwrite: ParseOverwrite accepts exactly "T" and "F".
func VerifH_C16_Overwrite() {
	s := vrt.Str("s")
	b, err := ParseOverwrite(s)
	valid := s == "T" || s == "F"
	vrt.Assert((err == nil) == valid, "ParseOverwrite accepts exactly T and F")
	if err == nil {
		vrt.Assert(FormatOverwrite(b) == s, "FormatOverwrite(ParseOverwrite(s)) == s")
		vrt.Assert(b == (s == "T"), "T means true, F means false")
		vrt.Reach("accepted")
	} else {
		vrt.Assert(!b, "rejected Overwrite yields false")
		vrt.Reach("rejected")
	}
	ov := vrt.Bool("ov")
	b2, err2 := ParseOverwrite(FormatOverwrite(ov))
	vrt.Assert(err2 == nil && b2 == ov, "ParseOverwrite(FormatOverwrite(b)) == b")
}
