//go:build verif

package internal

import (
	"time"

	vrt "github.com/emersion/go-webdav/internal/zz_verifrt"
)

// VerifH_C16_Depth: ParseDepth accepts exactly "0", "1", "infinity" (input
// is an opaque string: every string of every length), round trip both ways.
func VerifH_C16_Depth() {
	s := vrt.Str("s")
	d, err := ParseDepth(s)
	valid := s == "0" || s == "1" || s == "infinity"
	vrt.Assert((err == nil) == valid, "ParseDepth accepts exactly 0, 1, infinity")
	if err == nil {
		vrt.Assert(d == DepthZero || d == DepthOne || d == DepthInfinity, "ParseDepth yields one of the three depths")
		vrt.Assert(d.String() == s, "Depth.String(ParseDepth(s)) == s")
		vrt.Reach("accepted")
	} else {
		vrt.Assert(d == 0, "rejected Depth yields the zero value")
		vrt.Reach("rejected")
	}
}

// VerifH_C16_DepthFormat: for each of the three values, parse(format(d)) == d;
// for every other Depth value String panics (and only then).
func VerifH_C16_DepthFormat() {
	d := Depth(vrt.Int("d"))
	valid := d == DepthZero || d == DepthOne || d == DepthInfinity
	panicked := false
	var s string
	func() {
		defer func() {
			if recover() != nil {
				panicked = true
			}
		}()
		s = d.String()
	}()
	vrt.Assert(panicked == !valid, "Depth.String panics exactly outside {0,1,infinity}")
	if !panicked {
		d2, err := ParseDepth(s)
		vrt.Assert(err == nil && d2 == d, "ParseDepth(Depth.String(d)) == d")
		vrt.Reach("formatted")
	} else {
		vrt.Reach("panicked")
	}
}

// VerifH_C16_Overwrite: ParseOverwrite accepts exactly "T" and "F".
func VerifH_C16_Overwrite() {
	s := vrt.Str("s")
	b, err := ParseOverwrite(s)
	valid := s == "T" || s == "F"
	vrt.Assert((err == nil) == valid, "ParseOverwrite accepts exactly T and F")
	if err == nil {
		vrt.Assert(FormatOverwrite(b) == s, "FormatOverwrite(ParseOverwrite(s)) == s")
		vrt.Assert(b == (s == "T"), "T means true, F means false")
		vrt.Reach("accepted")
	} else {
		vrt.Assert(!b, "rejected Overwrite yields false")
		vrt.Reach("rejected")
	}
	ov := vrt.Bool("ov")
	b2, err2 := ParseOverwrite(FormatOverwrite(ov))
	vrt.Assert(err2 == nil && b2 == ov, "ParseOverwrite(FormatOverwrite(b)) == b")
}

// VerifH_C16_ETag: entity tags through MarshalText/UnmarshalText (XML) and
// String (headers): round trip for every byte string up to maxlen bytes;
// texts that are not a double-quoted string are refused; never panics.
func VerifH_C16_ETag() {
	n := vrt.Choose("len", vrt.Param("etaglen", 2)+1)
	s := vrt.StrN("tag", n)
	text, err := ETag(s).MarshalText()
	vrt.Assert(err == nil, "ETag.MarshalText cannot fail")
	vrt.Assert(string(text) == ETag(s).String(), "header form and XML form of a tag are the same text")
	var back ETag
	err = back.UnmarshalText(text)
	vrt.Assert(err == nil && string(back) == s, "ETag round trip: Unmarshal(Marshal(s)) == s")
	vrt.Reach("etag-roundtrip")
}

// VerifH_C16_ETagReject: every text of up to maxlen bytes that is not of the
// form "..." (first and last byte a double quote, at least two bytes) is
// refused; accepted texts never panic.
func VerifH_C16_ETagReject() {
	n := vrt.Choose("len", vrt.Param("textlen", 3)+1)
	text := vrt.StrN("text", n)
	var e ETag
	err := e.UnmarshalText([]byte(text))
	quoted := n >= 2 && text[0] == '"' && text[n-1] == '"'
	if !quoted {
		vrt.Assert(err != nil, "text that is not a double-quoted string is refused as entity tag")
		vrt.Assert(e == "", "refused entity tag leaves the value untouched")
	}
	vrt.Reach("etag-reject")
}

// VerifH_C16_Status: status lines: any code 100..999 with any reason phrase
// of up to maxlen bytes round-trips; texts with fewer than three fields or a
// non-numeric code are refused.
func VerifH_C16_Status() {
	code := vrt.IntRange("code", 100, 999)
	n := 1 + vrt.Choose("reasonlen", vrt.Param("reasonlen", 3))
	reason := vrt.StrN("reason", n)
	st := Status{Code: code, Text: reason}
	text, err := st.MarshalText()
	vrt.Assert(err == nil, "Status.MarshalText cannot fail")
	var back Status
	err = back.UnmarshalText(text)
	vrt.Assert(err == nil && back.Code == code && back.Text == reason, "status line round trip")
	vrt.Reach("status-roundtrip")
}

func VerifH_C16_StatusReject() {
	n := vrt.Choose("len", vrt.Param("textlen", 5)+1)
	text := vrt.StrN("text", n)
	var st Status
	err := st.UnmarshalText([]byte(text))
	// reference: "HTTP-version SP code SP reason": at least two spaces
	spaces := 0
	for i := 0; i < n; i++ {
		if text[i] == ' ' {
			spaces++
		}
	}
	if spaces < 2 {
		vrt.AssertKnown(err != nil, "text with fewer than three fields is refused as status line", "C16-status-empty-text", n == 0)
		if err != nil {
			vrt.Assert(st.Code == 0 && st.Text == "", "refused status line leaves the value untouched")
		}
	}
	vrt.Reach("status-reject")
}

// VerifH_C16_StatusGrammar: a status line is HTTP-version SP 3DIGIT SP
// reason-phrase (RFC 4918 14.28, RFC 7230 3.1.2). Texts built on the template
// "HTTP/1.1 <code> <reason>" with one byte of the version, the whole code
// field (1..4 bytes) and the reason (0..1 byte) arbitrary: accepted exactly
// when the version is HTTP/digit.digit and the code field is three digits,
// and then with that code and that reason; otherwise refused and the value
// left untouched.
func VerifH_C16_StatusGrammar() {
	version := []byte("HTTP/1.1")
	k := vrt.Choose("version-byte", len(version))
	vb := vrt.Byte("version-byte-value")
	vrt.Assume(vb != ' ')
	version[k] = vb
	nc := 1 + vrt.Choose("code-len", 4)
	code := vrt.StrN("code", nc)
	for i := 0; i < nc; i++ {
		vrt.Assume(code[i] != ' ')
	}
	reason := vrt.StrN("reason", vrt.Choose("reason-len", 2))
	text := string(version) + " " + code + " " + reason
	var st Status
	err := st.UnmarshalText([]byte(text))
	versionOK := vb == "HTTP/1.1"[k]
	if k == 5 || k == 7 {
		versionOK = vb >= '0' && vb <= '9'
	}
	codeOK := nc == 3
	val := 0
	for i := 0; i < nc; i++ {
		if code[i] < '0' || code[i] > '9' {
			codeOK = false
		}
		val = val*10 + int(code[i]-'0')
	}
	if versionOK && codeOK {
		vrt.Assert(err == nil, "a status line in the RFC's form is accepted")
		vrt.Assert(st.Code == val && st.Text == reason, "an accepted status line yields its code and reason phrase")
		vrt.Reach("status-accepted")
	} else {
		vrt.Assert(err != nil, "a text outside the status-line grammar (version not HTTP/d.d, code not three digits) is refused")
		if err != nil {
			vrt.Assert(st.Code == 0 && st.Text == "", "refused status line leaves the value untouched")
		}
		vrt.Reach("status-refused")
	}
}

// VerifH_C16_Href: hrefs: any absolute path whose first segment is
// non-empty survives Marshal/Unmarshal byte for byte (every byte value, up
// to maxlen bytes), through the real net/url escaping and parsing code.
func VerifH_C16_Href() {
	n := 2 + vrt.Choose("len", vrt.Param("hreflen", 3))
	p := vrt.StrN("path", n)
	vrt.Assume(p[0] == '/' && p[1] != '/')
	h := Href{Path: p}
	text, err := h.MarshalText()
	vrt.Assert(err == nil, "Href.MarshalText cannot fail")
	var back Href
	err = back.UnmarshalText(text)
	vrt.Assert(err == nil, "an href produced by MarshalText is accepted by UnmarshalText")
	if err == nil {
		vrt.Assert(back.Path == p, "href round trip is byte for byte")
		vrt.Assert(back.Scheme == "" && back.Host == "" && back.RawQuery == "" && back.Fragment == "", "path-only href stays path-only")
	}
	vrt.Reach("href-roundtrip")
}

// VerifH_C16_HrefNoPanic: UnmarshalText never panics on any text.
func VerifH_C16_HrefNoPanic() {
	n := vrt.Choose("len", vrt.Param("textlen", 4)+1)
	text := vrt.StrN("text", n)
	var h Href
	err := h.UnmarshalText([]byte(text))
	if err != nil {
		vrt.Assert(h.Path == "" && h.Host == "", "refused href leaves the value untouched")
	}
	vrt.Reach("href-any")
}

// VerifH_C16_HTTPDate: getlastmodified text: the marshalled text does not
// depend on the zone the caller's value is in, and unmarshal(marshal(t)) is
// the same instant to the second. time.Format/Parse are uninterpreted
// functions of (layout, instant, zone) with the law parse(format(t)) = t.
func VerifH_C16_HTTPDate() {
	z1, z2 := vrt.Choose("zone1", 3), vrt.Choose("zone2", 3)
	t1 := Time(vrt.TimeIn("t", z1))
	text1, err := t1.MarshalText()
	vrt.Assert(err == nil, "Time.MarshalText cannot fail")
	// the same instant carried in another zone
	t2 := Time(time.Time(t1).In(verifZone(z2)))
	text2, _ := t2.MarshalText()
	vrt.Assert(string(text1) == string(text2), "HTTP date text depends only on the instant, not on the zone")
	var back Time
	err = back.UnmarshalText(text1)
	vrt.Assert(err == nil && time.Time(back).Equal(time.Time(t1)), "HTTP date round trip to the second")
	vrt.Reach("httpdate")
}

func verifZone(z int) *time.Location {
	switch z {
	case 1:
		return time.FixedZone("VZ1", 3600)
	case 2:
		return time.FixedZone("VZ2", -18000)
	}
	return time.UTC
}

// VerifH_C16_HTTPDateZone: the HTTP-date decoder on a valid date whose zone
// field is any three bytes (the real time.Parse runs from its SSA on this
// template): it is accepted exactly for GMT, and then it is that instant.
func VerifH_C16_HTTPDateZone() {
	zone := vrt.StrN("zone", 3)
	text := "Sun, 06 Nov 1994 08:49:37 " + zone
	var t Time
	err := t.UnmarshalText([]byte(text))
	vrt.Assert((err == nil) == (zone == "GMT"), "HTTP date: a zone field other than GMT is refused")
	if err == nil {
		vrt.Assert(time.Time(t).Unix() == 784111777, "HTTP date: the decoded instant")
	}
	vrt.Reach("http-date-zone")
}
