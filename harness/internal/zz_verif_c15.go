//go:build verif

package internal

import (
	"bytes"
	"encoding/xml"
	"io"
	"strings"

	vrt "github.com/emersion/go-webdav/internal/zz_verifrt"
)

// ---- token script: the decoder the raw value captures from -----------------

var verifScript []xml.Token
var verifScriptPos int
var verifScriptErrAt int

// verifStubDecoderToken replaces (*xml.Decoder).Token in the symbolic run.
func verifStubDecoderToken(d *xml.Decoder) (xml.Token, error) {
	// documented contract of (*xml.Decoder).Token: the bytes of a returned
	// CharData, Comment, Directive or ProcInst.Inst refer to the decoder's
	// internal buffer and are only valid until the next call: the stub
	// overwrites them on every later call
	verifClobber(verifLastToken)
	verifLastToken = nil
	if verifScriptPos == verifScriptErrAt || verifScriptPos >= len(verifScript) {
		return nil, io.ErrUnexpectedEOF
	}
	t := verifScript[verifScriptPos]
	verifScriptPos++
	verifLastToken = t
	return t, nil
}

var verifLastToken xml.Token

func verifClobber(t xml.Token) {
	var b []byte
	switch x := t.(type) {
	case xml.CharData:
		b = x
	case xml.Comment:
		b = x
	case xml.Directive:
		b = x
	case xml.ProcInst:
		b = x.Inst
	}
	for i := range b {
		b[i] = '#'
	}
}

var verifEncodedTokens []xml.Token

// verifStubEncodeToken replaces (*xml.Encoder).EncodeToken in the symbolic run.
func verifStubEncodeToken(e *xml.Encoder, t xml.Token) error {
	verifEncodedTokens = append(verifEncodedTokens, xml.CopyToken(t))
	return nil
}

type verifScriptReader struct {
	toks []xml.Token
	pos  int
	err  int
}

func (r *verifScriptReader) Token() (xml.Token, error) {
	if r.pos == r.err {
		return nil, io.ErrUnexpectedEOF
	}
	if r.pos >= len(r.toks) {
		return nil, io.EOF
	}
	t := r.toks[r.pos]
	r.pos++
	return t, nil
}

// symLetters: n arbitrary lower-case letters (so that the real encoder of
// the native replay accepts every generated name and text).
func symLetters(tag string, n int) string {
	return vrt.StrNIn(tag, n, 'a', 'z')
}

func symName(tag string) xml.Name {
	n := xml.Name{Local: symLetters(tag+"-local", 1)}
	if vrt.Choose(tag+"-hasspace", 2) == 1 {
		n.Space = "urn:" + symLetters(tag+"-space", 1)
	}
	return n
}

// genContent appends an arbitrary well-nested element content followed by
// the end element of the enclosing element.
func genContent(open xml.Name, depth int, budget *int) {
	for {
		kinds := 5
		if depth < vrt.Param("maxdepth", 2) && *budget >= 2 {
			kinds = 6
		}
		k := 0
		if *budget > 0 {
			k = vrt.Choose("token-kind", kinds)
		}
		switch k {
		case 0:
			verifScript = append(verifScript, xml.EndElement{Name: open})
			return
		case 1:
			verifScript = append(verifScript, xml.CharData([]byte(symLetters("chardata", 1+vrt.Choose("chardata-len", 2)))))
		case 2:
			verifScript = append(verifScript, xml.Comment([]byte(symLetters("comment", 1))))
		case 3:
			verifScript = append(verifScript, xml.ProcInst{Target: symLetters("pi-target", 1), Inst: []byte(symLetters("pi-inst", 1))})
		case 4:
			verifScript = append(verifScript, xml.Directive([]byte(symLetters("directive", 1))))
		case 5:
			name := symName("child")
			// the real decoder reports namespace declarations (and
			// undeclarations, xmlns="") among the attributes
			st := xml.StartElement{Name: name, Attr: []xml.Attr{{Name: xml.Name{Local: "xmlns"}, Value: name.Space}}}
			if vrt.Choose("child-hasattr", 2) == 1 {
				st.Attr = append(st.Attr, xml.Attr{Name: symName("attr"), Value: symLetters("attr-value", 1)})
			}
			verifScript = append(verifScript, st)
			*budget -= 2
			genContent(name, depth+1, budget)
			continue
		}
		*budget--
	}
}

func tokenEq(a, b xml.Token) bool {
	switch x := a.(type) {
	case xml.StartElement:
		y, ok := b.(xml.StartElement)
		if !ok || x.Name != y.Name || len(x.Attr) != len(y.Attr) {
			return false
		}
		for i := range x.Attr {
			if x.Attr[i] != y.Attr[i] {
				return false
			}
		}
		return true
	case xml.EndElement:
		y, ok := b.(xml.EndElement)
		return ok && x.Name == y.Name
	case xml.CharData:
		y, ok := b.(xml.CharData)
		return ok && string(x) == string(y)
	case xml.Comment:
		y, ok := b.(xml.Comment)
		return ok && string(x) == string(y)
	case xml.ProcInst:
		y, ok := b.(xml.ProcInst)
		return ok && x.Target == y.Target && string(x.Inst) == string(y.Inst)
	case xml.Directive:
		y, ok := b.(xml.Directive)
		return ok && string(x) == string(y)
	}
	return false
}

// VerifH_C15_Capture: a raw value captured from an arbitrary well-nested
// token stream replays exactly start, content..., end and then io.EOF for
// ever; MarshalXML hands the encoder the same sequence; a decoder error is
// returned, not swallowed; nothing panics.
func VerifH_C15_Capture() {
	verifScript, verifScriptPos, verifEncodedTokens = nil, 0, nil
	start := xml.StartElement{Name: symName("root")}
	start.Attr = []xml.Attr{{Name: xml.Name{Local: "xmlns"}, Value: start.Name.Space}}
	if vrt.Choose("root-hasattr", 2) == 1 {
		start.Attr = append(start.Attr, xml.Attr{Name: symName("rootattr"), Value: symLetters("rootattr-value", 1)})
	}
	budget := vrt.Param("maxtokens", 5)
	genContent(start.Name, 1, &budget)
	verifScriptErrAt = -1
	if vrt.Choose("decoder-fails", 2) == 1 {
		verifScriptErrAt = vrt.Choose("fail-at", len(verifScript))
	}

	// what the decoder will deliver
	want := []xml.Token{start}
	var d *xml.Decoder
	if vrt.Symbolic() {
		d = &xml.Decoder{}
		verifLastToken = nil
		for _, t := range verifScript {
			want = append(want, xml.CopyToken(t))
		}
	} else {
		// native: the real text decoder over the serialised script (its
		// tokens alias its internal buffer, as documented)
		full := verifSerialise(start, verifScript, -1)
		probe := xml.NewDecoder(strings.NewReader(full))
		first, err := probe.Token()
		if err != nil {
			vrt.Assume(false)
		}
		start = first.(xml.StartElement).Copy()
		want = []xml.Token{start}
		for {
			t, err := probe.Token()
			if err != nil {
				break
			}
			want = append(want, xml.CopyToken(t))
		}
		text := full
		if verifScriptErrAt >= 0 {
			text = verifSerialise(start, verifScript, verifScriptErrAt)
		}
		d = xml.NewDecoder(strings.NewReader(text))
		d.Token()
	}

	var val RawXMLValue
	err := val.UnmarshalXML(d, start)
	if verifScriptErrAt >= 0 {
		vrt.Assert(err != nil, "an error of the underlying decoder is returned, not swallowed")
		vrt.Reach("capture/decoder-error")
		return
	}
	vrt.Assert(err == nil, "capturing a well-formed element succeeds")
	if err != nil {
		return
	}
	if vrt.Symbolic() {
		vrt.Assert(verifScriptPos == len(verifScript), "capture consumes exactly the element")
	}
	name, ok := val.XMLName()
	vrt.Assert(ok && name == start.Name, "XMLName of a captured element")

	// token stream: balanced, well nested, finite, identical to the input
	tr := val.TokenReader()
	depth := 0
	// a second, complete traversal of the same value starts while the first
	// is under way (never, after its first token, or in its middle): the
	// streams of a value are independent of each other
	second := -1
	switch vrt.Choose("second-traversal", 3) {
	case 1:
		second = 1
	case 2:
		second = len(want)/2 + 1
	}
	for i := 0; i < len(want); i++ {
		if i == second {
			tr2 := val.TokenReader()
			for j := 0; j < len(want); j++ {
				tok2, err2 := tr2.Token()
				vrt.Assert(err2 == nil && tok2 != nil && tokenEq(tok2, want[j]), "a second traversal of the value yields the captured tokens")
				if err2 != nil || tok2 == nil {
					return
				}
			}
			tok2, err2 := tr2.Token()
			vrt.Assert(tok2 == nil && err2 == io.EOF, "a second traversal ends with io.EOF")
		}
		tok, err := tr.Token()
		vrt.Assert(err == nil && tok != nil, "token stream must not end early")
		if err != nil || tok == nil {
			return
		}
		vrt.Assert(tokenEq(tok, want[i]), "token stream of a raw value equals the captured tokens")
		switch tok.(type) {
		case xml.StartElement:
			depth++
		case xml.EndElement:
			depth--
			vrt.Assert(depth >= 0, "token stream is well nested")
		}
	}
	vrt.Assert(depth == 0, "token stream is balanced")
	for k := 0; k < 2; k++ {
		tok, err := tr.Token()
		vrt.Assert(tok == nil && err == io.EOF, "token stream ends with io.EOF and stays there")
	}

	// writing it out again
	if vrt.Symbolic() {
		e := &xml.Encoder{}
		err = val.MarshalXML(e, xml.StartElement{})
		vrt.Assert(err == nil, "MarshalXML of a captured value succeeds")
		vrt.Assert(len(verifEncodedTokens) == len(want), "MarshalXML emits one token per captured token")
		if len(verifEncodedTokens) == len(want) {
			// Namespace declarations that the encoder derives from the
			// element name anyway (xmlns equal to the element's own
			// namespace, or a redundant xmlns="") are not compared; an
			// undeclaration xmlns="" below a non-empty default namespace
			// is needed and must be emitted.
			var inherited []string
			cur := ""
			for i := range want {
				g, w := verifEncodedTokens[i], want[i]
				if ws, ok := w.(xml.StartElement); ok {
					if gs, ok := g.(xml.StartElement); ok {
						g, w = verifNeededAttrs(gs, cur), verifNeededAttrs(ws, cur)
					}
					inherited = append(inherited, cur)
					cur = ws.Name.Space
				} else if _, ok := w.(xml.EndElement); ok && len(inherited) > 0 {
					cur = inherited[len(inherited)-1]
					inherited = inherited[:len(inherited)-1]
				}
				vrt.Assert(tokenEq(g, w), "MarshalXML emits the captured tokens in order")
			}
		}
	} else {
		var buf bytes.Buffer
		e := xml.NewEncoder(&buf)
		err = val.MarshalXML(e, xml.StartElement{})
		if err == nil {
			err = e.Flush()
		}
		vrt.Assert(err == nil, "MarshalXML of a captured value succeeds")
		if err == nil {
			re := xml.NewDecoder(bytes.NewReader(buf.Bytes()))
			var got []xml.Token
			for {
				t, err := re.Token()
				if err != nil {
					break
				}
				got = append(got, xml.CopyToken(t))
			}
			g, w := verifNormalise(got), verifNormalise(want)
			vrt.Assert(len(g) == len(w), "MarshalXML emits one token per captured token")
			if len(g) == len(w) {
				for i := range w {
					vrt.Assert(tokenEq(g[i], w[i]), "MarshalXML emits the captured tokens in order")
				}
			}
		}
	}
	vrt.Reach("capture/roundtrip")
}

func symNameNative(s xml.StartElement) xml.Name { return s.Name }

// VerifH_C15_Constructed: NewRawXMLElement values replay start, children,
// end; marshal-only values refuse TokenReader with a panic; XMLName of a
// non-element is not ok.
func VerifH_C15_Constructed() {
	name := symName("el")
	nchildren := vrt.Choose("nchildren", 3)
	var children []RawXMLValue
	var want []xml.Token
	start := xml.StartElement{Name: name}
	want = append(want, start)
	for i := 0; i < nchildren; i++ {
		cn := symName("child")
		children = append(children, *NewRawXMLElement(cn, nil, nil))
		want = append(want, xml.StartElement{Name: cn}, xml.EndElement{Name: cn})
	}
	want = append(want, xml.EndElement{Name: name})
	val := NewRawXMLElement(name, nil, children)
	tr := val.TokenReader()
	for i := range want {
		tok, err := tr.Token()
		vrt.Assert(err == nil && tok != nil && tokenEq(tok, want[i]), "constructed element: token stream is start, children, end")
		if err != nil || tok == nil {
			return
		}
	}
	tok, err := tr.Token()
	vrt.Assert(tok == nil && err == io.EOF, "constructed element: stream ends with io.EOF")
	got, ok := val.XMLName()
	vrt.Assert(ok && got == name, "constructed element: XMLName")
	vrt.Reach("constructed")
}

// verifNormalise (native run): merge adjacent character data and drop the
// namespace declarations the real encoder adds, so that re-decoded output
// can be compared token by token.
func verifNormalise(toks []xml.Token) []xml.Token {
	var out []xml.Token
	for _, t := range toks {
		switch x := t.(type) {
		case xml.CharData:
			if n := len(out); n > 0 {
				if prev, ok := out[n-1].(xml.CharData); ok {
					out[n-1] = xml.CharData(append(append([]byte{}, prev...), x...))
					continue
				}
			}
			out = append(out, x)
		case xml.StartElement:
			y := xml.StartElement{Name: x.Name}
			for _, a := range x.Attr {
				if a.Name.Space == "xmlns" || (a.Name.Space == "" && a.Name.Local == "xmlns") {
					continue
				}
				y.Attr = append(y.Attr, a)
			}
			out = append(out, y)
		default:
			out = append(out, t)
		}
	}
	return out
}

// verifSerialise (native run) prints the start tag and the first upto
// tokens of the script (all of them for upto < 0) as XML text.
func verifSerialise(start xml.StartElement, script []xml.Token, upto int) string {
	var sb strings.Builder
	printStart := func(st xml.StartElement) {
		sb.WriteString("<" + st.Name.Local + " xmlns=\"" + st.Name.Space + "\"")
		for i, a := range st.Attr {
			if a.Name.Space == "" && a.Name.Local == "xmlns" {
				continue
			}
			if a.Name.Space != "" {
				p := "p" + string(rune('a'+i))
				sb.WriteString(" xmlns:" + p + "=\"" + a.Name.Space + "\" " + p + ":" + a.Name.Local + "=\"" + a.Value + "\"")
			} else {
				sb.WriteString(" " + a.Name.Local + "=\"" + a.Value + "\"")
			}
		}
		sb.WriteString(">")
	}
	printStart(start)
	for i, t := range script {
		if upto >= 0 && i >= upto {
			break
		}
		switch x := t.(type) {
		case xml.StartElement:
			printStart(x)
		case xml.EndElement:
			sb.WriteString("</" + x.Name.Local + ">")
		case xml.CharData:
			sb.WriteString(string(x))
		case xml.Comment:
			sb.WriteString("<!--" + string(x) + "-->")
		case xml.ProcInst:
			sb.WriteString("<?" + x.Target + " " + string(x.Inst) + "?>")
		case xml.Directive:
			sb.WriteString("<!" + string(x) + ">")
		}
	}
	return sb.String()
}

// verifNeededAttrs drops the namespace declarations the encoder derives
// itself; inheritedDefault is the default namespace in scope.
func verifNeededAttrs(st xml.StartElement, inheritedDefault string) xml.StartElement {
	out := xml.StartElement{Name: st.Name}
	for _, a := range st.Attr {
		if a.Name.Space == "" && a.Name.Local == "xmlns" {
			if !(a.Value == "" && inheritedDefault != "") {
				continue
			}
		}
		out.Attr = append(out.Attr, a)
	}
	return out
}
