//go:build verif

package internal

import (
	"encoding/xml"
	"fmt"

	vrt "github.com/emersion/go-webdav/internal/zz_verifrt"
)

type verifEntry struct {
	code     int
	name     xml.Name
	val      interface{}
	nonEmpty bool // an "empty" element that carries attributes or children
}

func verifRawNonEmpty(r *RawXMLValue) bool {
	tok, children := r.VerifTok()
	if st, ok := tok.(xml.StartElement); ok && len(st.Attr) > 0 {
		return true
	}
	return len(children) > 0
}

// verifEntries flattens the propstats of a response.
func verifEntries(resp *Response) []verifEntry {
	var out []verifEntry
	for i := range resp.PropStats {
		ps := &resp.PropStats[i]
		for j := range ps.Prop.Raw {
			raw := &ps.Prop.Raw[j]
			e := verifEntry{code: ps.Status.Code, val: raw.VerifOut()}
			if e.val != nil {
				if r, ok := e.val.(*RawXMLValue); ok {
					// an empty element wrapped as outgoing value
					e.name, _ = r.XMLName()
					e.val = nil
					e.nonEmpty = verifRawNonEmpty(r)
				}
			} else {
				e.name, _ = raw.XMLName()
				e.nonEmpty = verifRawNonEmpty(raw)
			}
			out = append(out, e)
		}
	}
	return out
}

// VerifEntry / VerifEntriesOf: the flattened propstats of a response for
// harnesses of other packages. Name is the element name (for an outgoing
// typed value: the name it marshals under).
type VerifEntry struct {
	Code int
	Name xml.Name
	Val  interface{}
}

func VerifEntriesOf(resp *Response) []VerifEntry {
	var out []VerifEntry
	for _, e := range verifEntries(resp) {
		ve := VerifEntry{Code: e.code, Name: e.name, Val: e.val}
		if e.val != nil {
			if g, ok := e.val.(interface{ GetXMLName() xml.Name }); ok {
				ve.Name = g.GetXMLName()
			} else if n, err := valueXMLName(e.val); err == nil {
				ve.Name = n
			}
		}
		out = append(out, ve)
	}
	return out
}

func symXMLName(tag string) xml.Name {
	return xml.Name{Space: vrt.Str(tag + "-space"), Local: vrt.Str(tag + "-local")}
}

// VerifH_C11_Accounting: NewPropFindResponse for a property table of
// 0..maxprops entries (arbitrary names; each yields a value, an HTTP error
// of arbitrary 4xx/5xx code, or a plain error) and a request in one of the
// four forms (prop with 0..maxreq arbitrary pairwise distinct names /
// propname / allprop / none).
func VerifH_C11_Accounting() {
	k := vrt.Choose("table-size", vrt.Param("maxprops", 2)+1)
	names := make([]xml.Name, 0, k+1)
	vals := make([]interface{}, 0, k+1)
	behaviour := make([]int, 0, k+1)
	codes := make([]int, 0, k+1)
	props := make(map[xml.Name]PropFindFunc)
	for i := 0; i < k; i++ {
		n := symXMLName("table")
		for _, prev := range names {
			vrt.Assume(n != prev)
		}
		b := vrt.Choose("behaviour", 3)
		code := 0
		val := interface{}(&DisplayName{Name: fmt.Sprintf("value-%d", i)})
		switch b {
		case 1:
			code = vrt.IntRange("error-code", 400, 599)
		case 2:
			code = 500
		}
		names = append(names, n)
		vals = append(vals, val)
		behaviour = append(behaviour, b)
		codes = append(codes, code)
		bb, cc, vv := b, code, val
		props[n] = func(raw *RawXMLValue) (interface{}, error) {
			switch bb {
			case 1:
				return nil, &HTTPError{Code: cc}
			case 2:
				return nil, fmt.Errorf("backend failure")
			}
			return vv, nil
		}
	}
	// the resourcetype property is always available
	hasRT := false
	for _, n := range names {
		if n == ResourceTypeName {
			hasRT = true
		}
	}
	if !hasRT {
		names = append(names, ResourceTypeName)
		vals = append(vals, nil) // any value
		behaviour = append(behaviour, 0)
		codes = append(codes, 0)
	}

	path := vrt.Str("path")
	pf := &PropFind{}
	form := vrt.Choose("form", 4)
	var requested []xml.Name
	switch form {
	case 0:
		m := vrt.Choose("nrequested", vrt.Param("maxreq", 3)+1)
		for i := 0; i < m; i++ {
			// the request may name a property more than once
			r := symXMLName("req")
			requested = append(requested, r)
		}
		// the request may name a property with content (e.g. calendar-data
		// with a comp child) or attributes: the answer must not echo them
		raws := make([]RawXMLValue, len(requested))
		for i, n := range requested {
			var attrs []xml.Attr
			var children []RawXMLValue
			switch vrt.Choose("request-element-content", 3) {
			case 1:
				children = []RawXMLValue{*NewRawXMLElement(xml.Name{Space: "urn:x", Local: "child"}, nil, nil)}
			case 2:
				attrs = []xml.Attr{{Name: xml.Name{Local: "attr"}, Value: "v"}}
			}
			raws[i] = *NewRawXMLElement(n, attrs, children)
		}
		pf.Prop = &Prop{Raw: raws}
	case 1:
		pf.PropName = &struct{}{}
	case 2:
		pf.AllProp = &struct{}{}
	}

	resp, err := NewPropFindResponse(path, pf, props)
	if form == 3 {
		vrt.Assert(err != nil && verifCodeOf(err) == 400, "a propfind naming none of prop, propname, allprop is refused with 400")
		vrt.Reach("accounting/refused")
		return
	}
	vrt.Assert(err == nil && resp != nil, "NewPropFindResponse succeeds for a well-formed propfind")
	if err != nil || resp == nil {
		return
	}
	vrt.Assert(len(resp.Hrefs) == 1 && resp.Hrefs[0].Path == path, "exactly one href: the resource path")
	// propstats are grouped by distinct status
	for i := range resp.PropStats {
		for j := i + 1; j < len(resp.PropStats); j++ {
			vrt.Assert(resp.PropStats[i].Status.Code != resp.PropStats[j].Status.Code, "one propstat per status")
		}
	}
	entries := verifEntries(resp)

	expect := func(n xml.Name, withValues bool) (int, interface{}, bool) {
		for i, tn := range names {
			if tn == n {
				if behaviour[i] != 0 {
					if !withValues {
						return 200, nil, false
					}
					return codes[i], nil, false
				}
				if !withValues {
					return 200, nil, false
				}
				return 200, vals[i], tn != ResourceTypeName || hasRT
			}
		}
		return 404, nil, false
	}
	checkOne := func(n xml.Name, withValues bool, what string) {
		wantCode, wantVal, checkVal := expect(n, withValues)
		count := 0
		for _, e := range entries {
			match := false
			if e.val != nil && checkVal {
				match = e.val == wantVal
			} else if e.val != nil {
				// a value whose declared name is the property (resourcetype)
				vn, err := valueXMLName(e.val)
				match = err == nil && vn == n && wantCode == 200 && withValues
			} else {
				match = e.name == n
			}
			if match {
				count++
				vrt.Assert(e.code == wantCode, what+": property reported under the wrong status")
				if wantCode != 200 || !withValues {
					vrt.Assert(e.val == nil && !e.nonEmpty, what+": property must be reported empty")
				}
			}
		}
		vrt.Assert(count == 1, what+": every property is accounted for exactly once")
	}

	switch form {
	case 0:
		var distinct []xml.Name
		for _, r := range requested {
			dup := false
			for _, d := range distinct {
				if d == r {
					dup = true
				}
			}
			if !dup {
				distinct = append(distinct, r)
			}
		}
		vrt.Assert(len(entries) == len(distinct), "prop: one entry per distinct requested property")
		for _, r := range distinct {
			checkOne(r, true, "prop")
		}
		vrt.Reach("accounting/prop")
	case 1:
		vrt.Assert(len(entries) == len(names), "propname: one entry per available property")
		for _, n := range names {
			checkOne(n, false, "propname")
		}
		vrt.Reach("accounting/propname")
	case 2:
		vrt.Assert(len(entries) == len(names), "allprop: one entry per available property")
		for _, n := range names {
			checkOne(n, true, "allprop")
		}
		vrt.Reach("accounting/allprop")
	}
}

func verifCodeOf(err error) int {
	if he, ok := err.(*HTTPError); ok {
		return he.Code
	}
	return -1
}
