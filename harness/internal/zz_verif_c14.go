//go:build verif

package internal

import (
	"context"
	"encoding/xml"
	"errors"
	"fmt"
	"io"
	"net/http"
	"net/url"
	"strings"

	vrt "github.com/emersion/go-webdav/internal/zz_verifrt"
)

// ---- what the XML decoder delivers for a response body (symbolic run) ------

var VerifBodyDecodeFails bool
var VerifBodyError *Error
var VerifBodyMultiStatus *MultiStatus

func verifStubXMLDecode(d *xml.Decoder, v interface{}) error {
	if VerifBodyDecodeFails {
		if VerifBodyEmpty {
			// no document at all: the real decoder reports io.EOF
			return io.EOF
		}
		return io.ErrUnexpectedEOF
	}
	switch dst := v.(type) {
	case *Error:
		if VerifBodyError == nil {
			return io.ErrUnexpectedEOF
		}
		*dst = *VerifBodyError
		return nil
	case *MultiStatus:
		if VerifBodyMultiStatus == nil {
			return io.ErrUnexpectedEOF
		}
		*dst = *VerifBodyMultiStatus
		return nil
	}
	if VerifRequestBody != nil && VerifCopyHook != nil && VerifCopyHook(v, VerifRequestBody) {
		return nil
	}
	vrt.Unsupported("xml.Decoder.Decode into an unexpected type")
	return io.ErrUnexpectedEOF
}

// VerifResponder is the HTTP client of the C14 harnesses: it answers every
// request with the prepared response (symbolic status code).
type VerifResponder struct {
	Status   int
	Header   http.Header
	Body     string
	Err      error
	Requests []*http.Request
}

type verifStringBody struct {
	s   string
	pos int
}

func (b *verifStringBody) Read(p []byte) (int, error) {
	if b.pos >= len(b.s) {
		return 0, io.EOF
	}
	n := copy(p, b.s[b.pos:])
	b.pos += n
	return n, nil
}
func (b *verifStringBody) Close() error { return nil }

func (c *VerifResponder) Do(req *http.Request) (*http.Response, error) {
	c.Requests = append(c.Requests, req)
	if c.Err != nil {
		return nil, c.Err
	}
	h := c.Header
	if h == nil {
		h = http.Header{}
	}
	return &http.Response{StatusCode: c.Status, Status: "status", Header: h, Body: &verifStringBody{s: c.Body}, Request: req}, nil
}

// VerifPrepareBody: how the body will be understood. Natively the typed
// value is marshalled to real XML.
// VerifBodyEmpty: the undecodable body is one without any document (only a
// prolog): the decoder fails with io.EOF rather than with a syntax error.
var VerifBodyEmpty bool

func VerifPrepareBody(r *VerifResponder, decodeFails bool, errElt *Error, ms *MultiStatus) {
	VerifBodyDecodeFails, VerifBodyError, VerifBodyMultiStatus = decodeFails, errElt, ms
	if vrt.Symbolic() {
		r.Body = "<xml/>"
		return
	}
	switch {
	case decodeFails && VerifBodyEmpty:
		r.Body = "<?xml version=\"1.0\" encoding=\"utf-8\"?>\n"
	case decodeFails:
		r.Body = "<broken"
	case errElt != nil:
		b, _ := xml.Marshal(errElt)
		r.Body = string(b)
	case ms != nil:
		b, err := xml.Marshal(ms)
		if err != nil {
			r.Body = "<marshal-error"
		} else {
			r.Body = string(b)
		}
	default:
		r.Body = "<broken"
	}
}

var verifContentTypes = []string{"", "text/plain", "text/plain; charset=utf-8", "text/html", "text/xml", "application/xml; charset=utf-8", "application/json", ";;bad"}

func verifIsXMLType(ct string) bool {
	return ct == "text/xml" || ct == "application/xml; charset=utf-8"
}

func verifIsTextType(ct string) bool {
	return ct == "" || strings.HasPrefix(ct, "text/")
}

var verifTextBodies = []string{"", "   \n", "not found", strings.Repeat("x", 1500)}

func verifPlainRequest(method, path string) *http.Request {
	return &http.Request{Method: method, URL: &url.URL{Scheme: "http", Host: "dav.example", Path: path}, Header: http.Header{}}
}

// VerifH_C14_Do: Client.Do for every status code (any 64-bit int), content
// type and body interpretation: error iff the status is not 2xx; the error
// carries the status code and the DAV:error element when one was decoded.
func VerifH_C14_Do() {
	VerifResetWire()
	r := &VerifResponder{Status: vrt.Int("status"), Header: http.Header{}}
	ct := verifContentTypes[vrt.Choose("content-type", len(verifContentTypes))]
	if ct != "" {
		r.Header.Set("Content-Type", ct)
	}
	var sentErr *Error
	decodeFails := false
	if verifIsXMLType(ct) {
		if vrt.Choose("error-body-decodes", 2) == 1 {
			sentErr = &Error{Raw: []RawXMLValue{*NewRawXMLElement(xml.Name{Space: "urn:x", Local: "precondition"}, nil, nil)}}
		} else {
			decodeFails = true
		}
		VerifPrepareBody(r, decodeFails, sentErr, nil)
	} else {
		r.Body = verifTextBodies[vrt.Choose("text-body", len(verifTextBodies))]
	}
	transportFails := vrt.Choose("transport-fails", 2) == 1
	if transportFails {
		r.Err = fmt.Errorf("connection reset")
	}
	c := VerifNewClient(r, "/dav/")
	var resp *http.Response
	var err error
	panicked := interface{}(nil)
	func() {
		defer func() { panicked = recover() }()
		resp, err = c.Do(verifPlainRequest("GET", "/dav/x"))
	}()
	vrt.Assert(panicked == nil, "Client.Do must not panic")
	if panicked != nil {
		return
	}
	if transportFails {
		vrt.Assert(err != nil && resp == nil, "a transport failure is returned as an error")
		vrt.Reach("do/transport-error")
		return
	}
	is2xx := r.Status >= 200 && r.Status <= 299
	vrt.Assert((err == nil) == is2xx, "Client.Do fails exactly when the status is not 2xx")
	if err == nil {
		vrt.Assert(resp != nil && resp.StatusCode == r.Status, "successful Do returns the response")
		vrt.Reach("do/2xx")
		return
	}
	vrt.Assert(resp == nil, "failed Do returns no response")
	var he *HTTPError
	vrt.Assert(errors.As(err, &he) && he.Code == r.Status, "the error carries the HTTP status code")
	var ee *Error
	hasElt := errors.As(err, &ee)
	if sentErr != nil {
		vrt.Assert(hasElt && len(ee.Raw) == len(sentErr.Raw), "the error carries the DAV:error element of the response")
	} else {
		vrt.Assert(!hasElt, "no DAV:error element is invented")
	}
	vrt.Assert((r.Status == 404) == IsNotFound(err), "IsNotFound exactly for 404")
	vrt.Reach("do/failed")
}

// symMultiStatus: an arbitrary multi-status of bounded shape: 0..maxresp
// responses, each with 0..2 hrefs, optional response status (any code),
// 0..2 propstats (any status code) carrying getetag / displayname.
func symMultiStatus(maxResp int) *MultiStatus {
	ms := &MultiStatus{}
	n := vrt.Choose("nresponses", maxResp+1)
	for i := 0; i < n; i++ {
		resp := Response{}
		nh := vrt.Choose("nhrefs", 3)
		for k := 0; k < nh; k++ {
			resp.Hrefs = append(resp.Hrefs, Href{Path: "/dav/r" + string(rune('0'+i)) + string(rune('a'+k))})
		}
		if vrt.Choose("has-response-status", 2) == 1 {
			resp.Status = &Status{Code: vrt.IntRange("response-status", 100, 999)}
			if vrt.Choose("has-error-element", 2) == 1 {
				resp.Error = &Error{Raw: []RawXMLValue{*NewRawXMLElement(xml.Name{Space: "urn:x", Local: "cond"}, nil, nil)}}
			}
			if vrt.Choose("has-description", 2) == 1 {
				resp.ResponseDescription = "because"
			}
		}
		{
			// a server may send a response-level status together with
			// propstats (at most one then, to bound the combinations)
			maxps := 3
			if resp.Status != nil {
				maxps = 2
			}
			nps := vrt.Choose("npropstats", maxps)
			for k := 0; k < nps; k++ {
				ps := PropStat{Status: Status{Code: vrt.IntRange("propstat-status", 100, 999)}}
				if k == 0 {
					raw, _ := EncodeRawXMLElement(&GetETag{ETag: ETag("tag" + string(rune('0'+i)))})
					ps.Prop.Raw = append(ps.Prop.Raw, *raw)
					if vrt.Choose("propstat-has-error-element", 2) == 1 {
						ps.Error = &Error{Raw: []RawXMLValue{*NewRawXMLElement(xml.Name{Space: "urn:x", Local: "pcond"}, nil, nil)}}
					}
				} else {
					raw, _ := EncodeRawXMLElement(&DisplayName{Name: "name" + string(rune('0'+i))})
					ps.Prop.Raw = append(ps.Prop.Raw, *raw)
				}
				resp.PropStats = append(resp.PropStats, ps)
			}
		}
		ms.Responses = append(ms.Responses, resp)
	}
	return ms
}

// VerifH_C14_MultiStatus: DoMultiStatus / PropFind / PropFindFlat and the
// per-response accessors for every status placement.
func VerifH_C14_MultiStatus() {
	VerifResetWire()
	r := &VerifResponder{Status: vrt.Int("status"), Header: http.Header{}}
	r.Header.Set("Content-Type", "text/xml")
	var sent *MultiStatus
	decodeFails := vrt.Choose("body-decodes", 2) == 0
	VerifBodyEmpty = false
	if !decodeFails {
		sent = symMultiStatus(vrt.Param("maxresp", 2))
	} else {
		VerifBodyEmpty = vrt.Choose("no-document-at-all", 2) == 1
	}
	VerifPrepareBody(r, decodeFails, nil, sent)
	c := VerifNewClient(r, "/dav/")
	var ms *MultiStatus
	var err error
	panicked := interface{}(nil)
	func() {
		defer func() { panicked = recover() }()
		ms, err = c.PropFind(context.Background(), "/dav/x", DepthOne, NewPropNamePropFind(GetETagName, DisplayNameName))
	}()
	vrt.Assert(panicked == nil, "PropFind must not panic")
	if panicked != nil {
		return
	}
	is2xx := r.Status >= 200 && r.Status <= 299
	wantOK := r.Status == 207 && !decodeFails
	vrt.Assert((err == nil) == wantOK, "a multi-status call succeeds exactly for a readable 207")
	if err != nil {
		vrt.Assert(ms == nil, "no data together with an error")
		if !is2xx || r.Status != 207 {
			// not 2xx, or 2xx but not the 207 a multi-status call requires
			var he *HTTPError
			vrt.Assert(errors.As(err, &he) && he.Code == r.Status, "the error carries the HTTP status code")
		}
		vrt.Reach("multistatus/failed")
		return
	}
	vrt.Assert(ms != nil && len(ms.Responses) == len(sent.Responses), "every response element is delivered")
	if ms == nil || len(ms.Responses) != len(sent.Responses) {
		return
	}
	for i := range ms.Responses {
		resp := &ms.Responses[i]
		src := &sent.Responses[i]
		// response-level status
		rerr := resp.Err()
		respFailed := src.Status != nil && !(src.Status.Code >= 200 && src.Status.Code <= 299)
		vrt.Assert((rerr != nil) == respFailed, "Response.Err reports exactly a non-2xx response status")
		if rerr != nil {
			var he *HTTPError
			vrt.Assert(errors.As(rerr, &he) && he.Code == src.Status.Code, "Response.Err carries the response's status code")
			var ee *Error
			vrt.Assert(errors.As(rerr, &ee) == (src.Error != nil), "Response.Err carries the DAV:error element")
		}
		// path
		p, perr := resp.Path()
		vrt.Assert((perr == nil) == (!respFailed && len(src.Hrefs) == 1), "Response.Path succeeds exactly for a successful response with one href")
		if len(src.Hrefs) == 1 {
			vrt.Assert(p == src.Hrefs[0].Path, "Response.Path is the href")
		}
		// properties
		var etag GetETag
		derr := resp.DecodeProp(&etag)
		has := !respFailed && len(src.PropStats) >= 1
		okStatus := has && src.PropStats[0].Status.Code == 200
		vrt.Assert((derr == nil) == okStatus, "DecodeProp succeeds exactly for a property reported under status 200")
		if derr == nil {
			vrt.Assert(string(etag.ETag) == "tag"+string(rune('0'+i)), "DecodeProp yields the reported value")
		} else {
			vrt.Assert(etag.ETag == "", "a property reported with a non-success status never populates the result")
			var he *HTTPError
			vrt.Assert(errors.As(derr, &he), "DecodeProp failure carries a status code")
			if has && !okStatus && he != nil {
				vrt.Assert(he.Code == src.PropStats[0].Status.Code, "DecodeProp failure carries the propstat's status code")
				var ee *Error
				vrt.Assert(errors.As(derr, &ee) == (src.PropStats[0].Error != nil), "DecodeProp failure carries the propstat's DAV:error element")
			}
			if !respFailed && len(src.PropStats) == 0 && he != nil {
				vrt.Assert(he.Code == 404 && IsNotFound(derr), "a missing property is a 404")
			}
			if respFailed && he != nil {
				vrt.Assert(he.Code == src.Status.Code, "a property of a failed response fails with that response's status code")
				var ee *Error
				vrt.Assert(errors.As(derr, &ee) == (src.Error != nil), "a property of a failed response fails with the response's DAV:error element")
			}
		}
	}
	vrt.Reach("multistatus/ok")

	// PropFindFlat demands exactly one response
	flat, ferr := c.PropFindFlat(context.Background(), "/dav/x", NewPropNamePropFind(GetETagName))
	vrt.Assert((ferr == nil) == (len(sent.Responses) == 1), "PropFindFlat succeeds exactly for one response element")
	vrt.Assert((flat != nil) == (ferr == nil), "PropFindFlat: data xor error")
}

// VerifH_C14_Options: Options for every status and header content.
func VerifH_C14_Options() {
	VerifResetWire()
	r := &VerifResponder{Status: vrt.Int("status"), Header: http.Header{}}
	davs := []string{"", "1", "1, 3", "3, addressbook", "1,2 , calendar-access"}
	dav := davs[vrt.Choose("dav", len(davs))]
	if dav != "" {
		r.Header["Dav"] = []string{dav}
	}
	r.Header["Allow"] = []string{"OPTIONS, get", "PROPFIND"}
	c := VerifNewClient(r, "/dav/")
	var classes, methods map[string]bool
	var err error
	panicked := interface{}(nil)
	func() {
		defer func() { panicked = recover() }()
		classes, methods, err = c.Options(context.Background(), "")
	}()
	vrt.Assert(panicked == nil, "Options must not panic")
	if panicked != nil {
		return
	}
	is2xx := r.Status >= 200 && r.Status <= 299
	class1 := dav == "1" || dav == "1, 3" || dav == "1,2 , calendar-access"
	vrt.Assert((err == nil) == (is2xx && class1), "Options succeeds exactly for a 2xx answer announcing DAV class 1")
	if err == nil {
		vrt.Assert(classes["1"] && methods["GET"] && methods["PROPFIND"] && methods["OPTIONS"], "Options reports the announced classes and methods")
	} else if !is2xx {
		var he *HTTPError
		vrt.Assert(errors.As(err, &he) && he.Code == r.Status, "the error carries the HTTP status code")
	}
	vrt.Reach("options")
}
