//go:build verif

package internal

import (
	"bytes"
	"encoding/xml"
	"fmt"
	"io"
	"io/ioutil"
	"net/http"
	"net/url"
	"strings"

	vrt "github.com/emersion/go-webdav/internal/zz_verifrt"
)

// ---------------------------------------------------------------------------
// The XML layer (encoding/xml is reflection driven and cannot be executed
// symbolically) is replaced by an "identity wire" in the symbolic run: Go
// values cross unchanged. The functions named verifStub* are installed by
// the stub table of a check; they are never called natively, where the real
// XML encoder/decoder run.

// VerifOut exposes the pending outgoing value of a marshal-only raw value.
func (val *RawXMLValue) VerifOut() interface{} { return val.out }

// VerifTok exposes the captured token and children of a raw value.
func (val *RawXMLValue) VerifTok() (xml.Token, []RawXMLValue) { return val.tok, val.children }

// VerifRaw builds a raw value from a token and children (token form).
func VerifRaw(tok xml.Token, children []RawXMLValue) RawXMLValue {
	return RawXMLValue{tok: tok, children: children}
}

// VerifCopyHook copies *src into *dst when both are pointers to the same
// property struct type of the package under test; set by each harness.
var VerifCopyHook func(dst, src interface{}) bool

// captured traffic
var VerifSentBody interface{}
var VerifSentMethod, VerifSentPath string
var VerifSentHeader http.Header
var VerifServed *MultiStatus
var VerifEncoded []interface{}
var VerifReplyMultiStatus func(req *http.Request) (*MultiStatus, error)
var VerifReply func(req *http.Request) (*http.Response, error)
var VerifRequestBody interface{}
var VerifRequestBodyErr bool

func VerifResetWire() {
	VerifSentBody, VerifSentMethod, VerifSentPath, VerifSentHeader = nil, "", "", nil
	VerifServed, VerifEncoded = nil, nil
	VerifReplyMultiStatus, VerifReply = nil, nil
	VerifRequestBody, VerifRequestBodyErr = nil, false
	VerifRequestBodyRepairable = false
	VerifRawDecodeBad = nil
	VerifBodyEmpty = false
}

func verifStubNewXMLRequest(c *Client, method string, path string, v interface{}) (*http.Request, error) {
	VerifSentBody, VerifSentMethod, VerifSentPath = v, method, path
	req := &http.Request{Method: method, URL: c.ResolveHref(path), Header: http.Header{}}
	req.Header.Add("Content-Type", "text/xml; charset=\"utf-8\"")
	VerifSentHeader = req.Header
	return req, nil
}

func verifStubDoMultiStatus(c *Client, req *http.Request) (*MultiStatus, error) {
	VerifSentHeader = req.Header
	if VerifReplyMultiStatus != nil {
		return VerifReplyMultiStatus(req)
	}
	if _, ok := c.http.(*VerifLoopback); ok {
		VerifServed = nil
		resp, err := c.Do(req)
		if err != nil {
			return nil, err
		}
		if resp.StatusCode != http.StatusMultiStatus {
			return nil, &HTTPError{Code: resp.StatusCode, Err: fmt.Errorf("HTTP multi-status request failed: expected 207 Multi-Status")}
		}
		if VerifServed == nil {
			return nil, io.ErrUnexpectedEOF
		}
		// status lines cross the wire as text: through the real
		// Status.MarshalText / UnmarshalText
		for i := range VerifServed.Responses {
			r := &VerifServed.Responses[i]
			if r.Status != nil {
				st, err := verifStatusOverWire(r.Status)
				if err != nil {
					return nil, err
				}
				r.Status = st
			}
			for k := range r.PropStats {
				st, err := verifStatusOverWire(&r.PropStats[k].Status)
				if err != nil {
					return nil, err
				}
				r.PropStats[k].Status = *st
			}
		}
		return VerifServed, nil
	}
	return &MultiStatus{}, nil
}

func verifStubDecodeXMLRequest(r *http.Request, v interface{}) error {
	if !isContentXML(r.Header) {
		return HTTPErrorf(http.StatusBadRequest, "webdav: expected application/xml request")
	}
	if VerifRequestBodyErr || VerifRequestBody == nil {
		return &HTTPError{http.StatusBadRequest, io.ErrUnexpectedEOF}
	}
	if pf, ok := v.(*PropFind); ok {
		if src, ok := VerifRequestBody.(*PropFind); ok {
			*pf = *src
			return nil
		}
	}
	if pu, ok := v.(*PropertyUpdate); ok {
		if src, ok := VerifRequestBody.(*PropertyUpdate); ok {
			*pu = *src
			return nil
		}
	}
	if VerifCopyHook != nil && VerifCopyHook(v, VerifRequestBody) {
		return nil
	}
	return &HTTPError{http.StatusBadRequest, io.ErrUnexpectedEOF}
}

// VerifRequestBodyRepairable: the request body is not well-formed XML, but
// in a way a decoder with Strict == false repairs (encoding/xml documents
// which: missing end tags, unquoted attribute values, unknown entities); it
// then reads VerifRequestBody. Natively: an unquoted attribute value.
var VerifRequestBodyRepairable bool

// verifStubXMLDecodeRequest stands for (*xml.Decoder).Decode when the real
// DecodeXMLRequest runs: the decoder it is called on is the one the
// implementation configured.
func verifStubXMLDecodeRequest(d *xml.Decoder, v interface{}) error {
	if VerifRequestBodyErr && !(VerifRequestBodyRepairable && !d.Strict) {
		return io.ErrUnexpectedEOF
	}
	if VerifRequestBody == nil {
		return io.ErrUnexpectedEOF
	}
	if pf, ok := v.(*PropFind); ok {
		if src, ok := VerifRequestBody.(*PropFind); ok {
			*pf = *src
			return nil
		}
	}
	if pu, ok := v.(*PropertyUpdate); ok {
		if src, ok := VerifRequestBody.(*PropertyUpdate); ok {
			*pu = *src
			return nil
		}
	}
	if VerifCopyHook != nil && VerifCopyHook(v, VerifRequestBody) {
		return nil
	}
	return io.ErrUnexpectedEOF
}

// VerifUnquoteFirstAttr makes a marshalled document not well-formed in a
// repairable way: the first attribute value loses its quotes (native only).
func VerifUnquoteFirstAttr(b []byte) []byte {
	i := bytes.Index(b, []byte("=\""))
	if i < 0 {
		return []byte("<broken")
	}
	j := bytes.IndexByte(b[i+2:], '"')
	if j < 0 {
		return []byte("<broken")
	}
	out := append([]byte{}, b[:i+1]...)
	out = append(out, b[i+2:i+2+j]...)
	out = append(out, b[i+2+j+1:]...)
	return out
}

func verifStubServeMultiStatus(w http.ResponseWriter, ms *MultiStatus) error {
	VerifServed = ms
	w.WriteHeader(http.StatusMultiStatus)
	return nil
}

func verifStubXMLEncode(e *xml.Encoder, v interface{}) error {
	VerifEncoded = append(VerifEncoded, v)
	return nil
}

// raw values on the identity wire stay in their outgoing form
func verifStubRawXMLName(val *RawXMLValue) (xml.Name, bool) {
	if inner, ok := val.out.(*RawXMLValue); ok {
		return verifStubRawXMLName(inner)
	}
	if val.out != nil {
		name, err := valueXMLName(val.out)
		return name, err == nil
	}
	if start, ok := val.tok.(xml.StartElement); ok {
		return start.Name, true
	}
	return xml.Name{}, false
}

// VerifRawDecodeBad: the payload of a raw value whose text is outside the
// grammar of the typed value it is decoded into (e.g. an attribute that is
// not a date): the real decoder fails on it, and so does the stub.
var VerifRawDecodeBad interface{}

func verifStubRawDecode(val *RawXMLValue, v interface{}) error {
	if inner, ok := val.out.(*RawXMLValue); ok {
		return verifStubRawDecode(inner, v)
	}
	if VerifRawDecodeBad != nil && val.out == VerifRawDecodeBad {
		return fmt.Errorf("verif: text outside the grammar of the typed value")
	}
	if val.out != nil {
		if dst, ok := v.(*ResourceType); ok {
			if src, ok := val.out.(*ResourceType); ok {
				*dst = *src
				return nil
			}
		}
		if dst, ok := v.(*GetContentLength); ok {
			if src, ok := val.out.(*GetContentLength); ok {
				*dst = *src
				return nil
			}
		}
		if dst, ok := v.(*GetContentType); ok {
			if src, ok := val.out.(*GetContentType); ok {
				*dst = *src
				return nil
			}
		}
		if dst, ok := v.(*GetLastModified); ok {
			if src, ok := val.out.(*GetLastModified); ok {
				// the date crosses the wire as text: through the real
				// MarshalText / UnmarshalText (time.Format / Parse are
				// uninterpreted, with parse(format(t in UTC)) = t)
				text, err := src.LastModified.MarshalText()
				if err != nil {
					return err
				}
				*dst = GetLastModified{XMLName: src.XMLName}
				return dst.LastModified.UnmarshalText(text)
			}
		}
		if dst, ok := v.(*GetETag); ok {
			if src, ok := val.out.(*GetETag); ok {
				*dst = *src
				return nil
			}
		}
		if dst, ok := v.(*DisplayName); ok {
			if src, ok := val.out.(*DisplayName); ok {
				*dst = *src
				return nil
			}
		}
		if dst, ok := v.(*CurrentUserPrincipal); ok {
			if src, ok := val.out.(*CurrentUserPrincipal); ok {
				*dst = *src
				return nil
			}
		}
		if VerifCopyHook != nil && VerifCopyHook(v, val.out) {
			return nil
		}
		vrt.Unsupported("identity wire: no typed copy for this property struct")
		return io.ErrUnexpectedEOF
	}
	// token form: an element without typed content decodes to the zero value
	return nil
}

// ---------------------------------------------------------------------------
// native side helpers: a fake HTTP client that records the request and
// answers with a canned response.

type VerifHTTPClient struct {
	Requests []*http.Request
	Bodies   [][]byte
	Status   int
	Header   http.Header
	Body     []byte
}

func (c *VerifHTTPClient) Do(req *http.Request) (*http.Response, error) {
	var b []byte
	if req.Body != nil {
		b, _ = ioutil.ReadAll(req.Body)
	}
	c.Requests = append(c.Requests, req)
	c.Bodies = append(c.Bodies, b)
	h := c.Header
	if h == nil {
		h = http.Header{}
	}
	st := c.Status
	if st == 0 {
		st = 207
		if h.Get("Content-Type") == "" {
			h.Set("Content-Type", "text/xml")
		}
	}
	body := c.Body
	if body == nil && st == 207 {
		body = []byte(xml.Header + `<multistatus xmlns="DAV:"></multistatus>`)
	}
	return &http.Response{StatusCode: st, Status: http.StatusText(st), Header: h, Body: ioutil.NopCloser(bytes.NewReader(body)), Request: req}, nil
}

// VerifNewClient builds a client on the given endpoint path without going
// through url.Parse (symbolic run) or with the real constructor (native).
func VerifNewClient(hc HTTPClient, endpointPath string) *Client {
	if vrt.Symbolic() {
		return &Client{http: hc, endpoint: &url.URL{Scheme: "http", Host: "dav.example", Path: endpointPath}}
	}
	c, err := NewClient(hc, "http://dav.example"+endpointPath)
	if err != nil {
		panic(err)
	}
	return c
}

// VerifXMLRoundTrip sends v through the real XML encoder and decoder into
// out (native run only); it is how the native replay obtains what "the other
// side" sees.
func VerifXMLRoundTrip(v interface{}, out interface{}) error {
	b, err := xml.Marshal(v)
	if err != nil {
		return err
	}
	return xml.Unmarshal(b, out)
}

// ---------------------------------------------------------------------------
// loopback: a client talking to a handler of this repository

type VerifLoopback struct {
	Handler  http.Handler
	Requests []*http.Request
}

type verifLoopRecorder struct {
	hdr   http.Header
	code  int
	parts []string
}

func (r *verifLoopRecorder) Header() http.Header { return r.hdr }
func (r *verifLoopRecorder) WriteHeader(code int) {
	if r.code == 0 {
		r.code = code
	}
}
func (r *verifLoopRecorder) Write(b []byte) (int, error) {
	if r.code == 0 {
		r.code = 200
	}
	r.parts = append(r.parts, string(b))
	return len(b), nil
}
func (r *verifLoopRecorder) WriteString(s string) (int, error) {
	if r.code == 0 {
		r.code = 200
	}
	r.parts = append(r.parts, s)
	return len(s), nil
}

type verifPartsBody struct {
	parts []string
	i     int
	pos   int
}

func (b *verifPartsBody) Read(p []byte) (int, error) {
	for b.i < len(b.parts) && b.pos >= len(b.parts[b.i]) {
		b.i++
		b.pos = 0
	}
	if b.i >= len(b.parts) {
		return 0, io.EOF
	}
	n := copy(p, b.parts[b.i][b.pos:])
	b.pos += n
	return n, nil
}
func (b *verifPartsBody) Close() error { return nil }

// VerifBodyText returns the whole (possibly symbolic) text of a loopback
// response body.
func VerifBodyText(rc io.ReadCloser) (string, bool) {
	pb, ok := rc.(*verifPartsBody)
	if !ok {
		return "", false
	}
	s := ""
	for _, p := range pb.parts {
		s += p
	}
	return s, true
}

func (l *VerifLoopback) Do(req *http.Request) (*http.Response, error) {
	l.Requests = append(l.Requests, req)
	if !vrt.Symbolic() {
		rec := newNativeRecorder()
		sreq := req
		if sreq.Body == nil {
			sreq.Body = http.NoBody
		}
		l.Handler.ServeHTTP(rec, sreq)
		return rec.result(req), nil
	}
	rec := &verifLoopRecorder{hdr: http.Header{}}
	sreq := &http.Request{Method: req.Method, URL: &url.URL{Path: req.URL.Path}, Header: req.Header, Body: req.Body, Host: req.URL.Host}
	if sreq.Body == nil {
		sreq.Body = http.NoBody
	}
	VerifRequestBody = VerifSentBody
	l.Handler.ServeHTTP(rec, sreq)
	code := rec.code
	if code == 0 {
		code = 200
	}
	return &http.Response{StatusCode: code, Status: "status", Header: rec.hdr, Body: &verifPartsBody{parts: rec.parts}, Request: req}, nil
}

type nativeRecorder struct {
	hdr  http.Header
	code int
	buf  bytes.Buffer
}

func newNativeRecorder() *nativeRecorder      { return &nativeRecorder{hdr: http.Header{}} }
func (r *nativeRecorder) Header() http.Header { return r.hdr }
func (r *nativeRecorder) WriteHeader(code int) {
	if r.code == 0 {
		r.code = code
	}
}
func (r *nativeRecorder) Write(b []byte) (int, error) {
	if r.code == 0 {
		r.code = 200
	}
	return r.buf.Write(b)
}
func (r *nativeRecorder) result(req *http.Request) *http.Response {
	code := r.code
	if code == 0 {
		code = 200
	}
	return &http.Response{StatusCode: code, Status: http.StatusText(code), Header: r.hdr, Body: ioutil.NopCloser(bytes.NewReader(r.buf.Bytes())), Request: req}
}

func verifStubNewRequest(c *Client, method string, path string, body io.Reader) (*http.Request, error) {
	req := &http.Request{Method: method, URL: c.ResolveHref(path), Header: http.Header{}}
	if body != nil {
		if rc, ok := body.(io.ReadCloser); ok {
			req.Body = rc
		} else {
			req.Body = ioutil.NopCloser(body)
		}
	}
	return req, nil
}

// VerifXMLRoundTripBytes decodes real XML bytes (native run).
func VerifXMLRoundTripBytes(b []byte, out interface{}) error { return xml.Unmarshal(b, out) }

// VerifMarshal renders a value as an XML document (native run).
func VerifMarshal(v interface{}) ([]byte, error) {
	b, err := xml.Marshal(v)
	if err != nil {
		return nil, err
	}
	return append([]byte(xml.Header), b...), nil
}

func verifStatusOverWire(s *Status) (*Status, error) {
	text, err := s.MarshalText()
	if err != nil {
		return nil, err
	}
	var out Status
	if err := out.UnmarshalText(text); err != nil {
		return nil, err
	}
	return &out, nil
}

// ---------------------------------------------------------------------------
// wire schema conformance: the side condition of the identity wire
//
// The identity wire hands Go values from one side to the other, so a change
// that client and server of this repository share (an element renamed, put
// into another namespace, written in another place) is invisible to it. The
// schema each wire struct maps to under encoding/xml (vrt.XMLShape: computed
// from the struct tags of the current source) is therefore compared with the
// RFC's definition of the element, written down here independently.

type VerifShapeSpec struct {
	Path     string // element path, names as "P:local" with P a key of the namespace table
	Items    string // attributes and children the wire format must have (blank separated, any order)
	Optional string // further attributes and children the RFC defines: allowed, not required
	Order    string // blank separated chains "a<b<c": the DTD puts these children in sequence
	MayMiss  bool   // the element itself is one the RFC defines but the library need not map
}

func verifExpandName(ns map[string]string, n string) string {
	// "@name" -> "@{}name", "C:filter*" -> "{urn:...}filter*"
	if strings.HasPrefix(n, "#") {
		return n
	}
	at := ""
	if strings.HasPrefix(n, "@") {
		at, n = "@", n[1:]
	}
	if k := strings.Index(n, ":"); k >= 0 {
		if full, ok := ns[n[:k]]; ok {
			return at + "{" + full + "}" + n[k+1:]
		}
	}
	return at + "{}" + n
}

func verifStripOcc(item string) string {
	return strings.TrimRight(item, "?*^")
}

// VerifCheckShape asserts that shape (vrt.XMLShape of a wire struct) is the
// schema described by specs.
func VerifCheckShape(shape string, ns map[string]string, specs []VerifShapeSpec, what string) {
	lines := map[string][]string{}
	var paths []string
	for _, l := range strings.Split(shape, "\n") {
		k := strings.Index(l, " := ")
		if k < 0 {
			vrt.Fail(what + ": wire struct has no XML mapping: " + l)
			continue
		}
		items := strings.Fields(l[k+4:])
		lines[l[:k]] = items
		paths = append(paths, l[:k])
	}
	known := map[string]bool{}
	for _, sp := range specs {
		var segs []string
		for _, s := range strings.Split(sp.Path, "/") {
			segs = append(segs, verifExpandName(ns, s))
		}
		path := strings.Join(segs, "/")
		known[path] = true
		got, ok := lines[path]
		if !ok && sp.MayMiss {
			continue
		}
		vrt.Assert(ok, what+": element "+sp.Path+" is part of the wire format")
		if !ok {
			continue
		}
		want := map[string]bool{}
		for _, it := range strings.Fields(sp.Items) {
			want[verifExpandName(ns, it)] = true
		}
		optional := map[string]bool{}
		for _, it := range strings.Fields(sp.Optional) {
			optional[verifExpandName(ns, it)] = true
		}
		same := true
		seen := map[string]bool{}
		for _, g := range got {
			if !want[g] && !optional[g] {
				same = false
			}
			seen[g] = true
		}
		for w := range want {
			if !seen[w] {
				same = false
			}
		}
		vrt.Assert(same, what+": element "+sp.Path+" has exactly the attributes and children the RFC defines, in the right namespaces: "+strings.Join(got, " "))
		for _, chain := range strings.Fields(sp.Order) {
			last := -1
			for _, n := range strings.Split(chain, "<") {
				full := verifExpandName(ns, n)
				for i, g := range got {
					if verifStripOcc(g) == full {
						vrt.Assert(i > last, what+": children of "+sp.Path+" are written in the order of the RFC's DTD ("+chain+")")
						last = i
					}
				}
			}
		}
	}
	for _, p := range paths {
		vrt.Assert(known[p], what+": element "+p+" is defined by the RFC")
	}
}
