//go:build verif

package internal

import (
	"encoding/xml"
	"io"
	"io/ioutil"
	"net/http"
	"sync/atomic"

	vrt "github.com/emersion/go-webdav/internal/zz_verifrt"
)

// verifTagged stands for a request element whose XML text is its tag.
type verifTagged struct {
	XMLName xml.Name `xml:"DAV: tagged"`
	Tag     string   `xml:",chardata"`
}

// the XML encoder writes, for a verifTagged value, the tag itself: enough to
// tell whose document a request body carries
var verifEncWriters map[*xml.Encoder]io.Writer

func verifStubNewEncoderC18(w io.Writer) *xml.Encoder {
	vrt.RaceOff() // the table of this stub is not library state
	defer vrt.RaceOn()
	e := new(xml.Encoder)
	if verifEncWriters == nil {
		verifEncWriters = map[*xml.Encoder]io.Writer{}
	}
	verifEncWriters[e] = w
	return e
}

func verifStubEncodeC18(e *xml.Encoder, v interface{}) error {
	t, ok := v.(*verifTagged)
	if !ok {
		vrt.Unsupported("unexpected request element")
		return nil
	}
	vrt.RaceOff()
	w := verifEncWriters[e]
	vrt.RaceOn()
	_, err := io.WriteString(w, "<"+t.Tag+">")
	return err
}

// verifEchoTransport reads the whole request body - after a scheduling point,
// as a real transport does its work some time after Do was called - and
// remembers it under the caller's number.
type verifEchoTransport struct {
	calls int32
	seen  [2]string
	path  [2]string
}

func (t *verifEchoTransport) Do(req *http.Request) (*http.Response, error) {
	atomic.AddInt32(&t.calls, 1)
	who := 0
	if req.Header.Get("X-Caller") == "1" {
		who = 1
	}
	vrt.Event("send-" + req.Header.Get("X-Caller"))
	b, err := ioutil.ReadAll(req.Body)
	if err != nil {
		return nil, err
	}
	t.seen[who] = string(b)
	t.path[who] = req.URL.Path
	return &http.Response{StatusCode: 207, Header: http.Header{}, Body: ioutil.NopCloser(verifNoBytes{}), Request: req}, nil
}

type verifNoBytes struct{}

func (verifNoBytes) Read(p []byte) (int, error) { return 0, io.EOF }

// VerifH_C18_ClientConcurrent: two goroutines build and send an XML request
// each through one Client, under every interleaving of their visible
// operations: each request carries its own caller's document and address, and
// no memory is accessed by both without synchronisation.
func VerifH_C18_ClientConcurrent() {
	vrt.SingleP()
	t := &verifEchoTransport{}
	c, err := NewClient(t, "http://h/dav/")
	if err != nil {
		vrt.Fail("NewClient")
		return
	}
	tags := [2]string{vrt.StrNIn("tag-a", 2, 'a', 'z'), vrt.StrNIn("tag-b", 1+vrt.Choose("tag-b-longer", 3), 'a', 'z')}
	paths := [2]string{"a", "b"}
	var errs [2]error
	done := make(chan int, 2)
	run := func(i int) {
		req, err := c.NewXMLRequest("REPORT", paths[i], &verifTagged{Tag: tags[i]})
		vrt.Event("built-" + string(rune('0'+i)))
		if err == nil {
			req.Header.Set("X-Caller", string(rune('0'+i)))
			var resp *http.Response
			resp, err = c.Do(req)
			if err == nil {
				resp.Body.Close()
			}
		}
		errs[i] = err
		done <- i
	}
	go run(0)
	go run(1)
	ok := vrt.Terminates(func() {
		<-done
		<-done
	})
	vrt.Assert(ok, "both calls return")
	if !ok {
		return
	}
	for i := 0; i < 2; i++ {
		vrt.Assert(errs[i] == nil, "the call succeeds as it does alone")
		want := xml.Header + "<" + tags[i] + ">"
		if !vrt.Symbolic() {
			want = xml.Header + `<tagged xmlns="DAV:">` + tags[i] + `</tagged>`
		}
		vrt.Assert(t.seen[i] == want, "a request carries its own caller's document")
		vrt.Assert(t.path[i] == "/dav/"+paths[i], "a request is addressed to its own caller's resource")
	}
	vrt.Assert(vrt.Races() == "", "no unsynchronised conflicting accesses: "+vrt.Races())
	vrt.Assert(vrt.Quiesce() == 0, "no goroutine left behind")
	vrt.Reach("both-served")
}
