//go:build verif

package internal

import (
	vrt "github.com/emersion/go-webdav/internal/zz_verifrt"
)

var verifDAV = map[string]string{"D": "DAV:"}

// RFC 4918 section 14 (and RFC 6578 for sync-token, RFC 5397 for
// current-user-principal): the elements of a multi-status answer and of the
// PROPFIND request. Child order is not compared here: RFC 4918 section 17
// makes the order of the DTDs irrelevant for DAV: elements.
//
//	<!ELEMENT multistatus (response*, responsedescription?)>  + sync-token
//	<!ELEMENT response (href, ((href*, status)|(propstat+)), error?, responsedescription?, location?)>
//	<!ELEMENT propstat (prop, status, error?, responsedescription?)>
//	<!ELEMENT location (href)>
//	<!ELEMENT propfind (propname | (allprop, include?) | prop)>
var verifMultiStatusSchema = []VerifShapeSpec{
	{Path: "D:multistatus", Items: "D:response* D:responsedescription? D:sync-token?"},
	{Path: "D:multistatus/D:response", Items: "D:href* D:propstat* D:status? D:error? D:responsedescription? D:location?"},
	{Path: "D:multistatus/D:response/D:propstat", Items: "D:prop D:status D:error? D:responsedescription?"},
	{Path: "D:multistatus/D:response/D:propstat/D:prop", Items: "#any*"},
	{Path: "D:multistatus/D:response/D:propstat/D:error", Items: "#any*"},
	{Path: "D:multistatus/D:response/D:error", Items: "#any*"},
	{Path: "D:multistatus/D:response/D:location", Items: "D:href"},
}

var verifPropFindSchema = []VerifShapeSpec{
	{Path: "D:propfind", Items: "D:prop? D:allprop? D:include? D:propname?"},
	{Path: "D:propfind/D:prop", Items: "#any*"},
	{Path: "D:propfind/D:include", Items: "#any*"},
}

var verifDAVPropSchemas = [][]VerifShapeSpec{
	{{Path: "D:resourcetype", Items: "#any*"}},
	{{Path: "D:getcontentlength", Items: "#text"}},
	{{Path: "D:getlastmodified", Items: "#text"}},
	{{Path: "D:getetag", Items: "#text"}},
	{{Path: "D:getcontenttype", Items: "#text"}},
	{{Path: "D:displayname", Items: "#text"}},
	{{Path: "D:current-user-principal", Items: "D:href? D:unauthenticated?"}},
	{{Path: "D:error", Items: "#any*"}},
}

// VerifH_C11_WireSchema: multi-status, propfind and the DAV: properties map
// to exactly the elements and namespaces RFC 4918 defines.
func VerifH_C11_WireSchema() {
	VerifCheckShape(vrt.XMLShape(&MultiStatus{}), verifDAV, verifMultiStatusSchema, "multistatus")
	VerifCheckShape(vrt.XMLShape(&PropFind{}), verifDAV, verifPropFindSchema, "propfind")
	vals := []interface{}{&ResourceType{}, &GetContentLength{}, &GetLastModified{}, &GetETag{}, &GetContentType{}, &DisplayName{}, &CurrentUserPrincipal{}, &Error{}}
	for i, v := range vals {
		VerifCheckShape(vrt.XMLShape(v), verifDAV, verifDAVPropSchemas[i], "DAV: property")
	}
	vrt.Reach("wire-schema")
}
