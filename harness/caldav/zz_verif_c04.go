//go:build verif

package caldav

import (
	"net/http"

	"github.com/emersion/go-webdav/internal"
	vrt "github.com/emersion/go-webdav/internal/zz_verifrt"
)

// VerifH_C04_PassThrough: the server hands If-Match and If-None-Match to the
// backend unaltered (any header value, or none).
func VerifH_C04_PassThrough() {
	internal.VerifResetWire()
	internal.VerifCopyHook = verifCopy
	be := &verifBackend{principal: "/dav/u/", homeSet: "/dav/u/x/"}
	h := &Handler{Backend: be, Prefix: "/dav"}
	hdr := http.Header{}
	hdr.Set("Content-Type", "text/calendar")
	im, inm := "", ""
	if vrt.Choose("has-if-match", 2) == 1 {
		im = vrt.Text("if-match")
		vrt.Assume(im != "")
		hdr["If-Match"] = []string{im}
	}
	if vrt.Choose("has-if-none-match", 2) == 1 {
		inm = vrt.Text("if-none-match")
		vrt.Assume(inm != "")
		hdr["If-None-Match"] = []string{inm}
	}
	verifICalFails = false
	r := verifRequest("PUT", "/dav/u/cal/c/o.ics", hdr, nil, false, verifValidICal, false)
	rec := newVerifRecorder()
	h.ServeHTTP(rec, r)
	vrt.Assert(rec.code == 201 && be.putOpts != nil, "a well-formed PUT reaches the backend")
	if be.putOpts != nil {
		vrt.Assert(string(be.putOpts.IfMatch) == im, "If-Match reaches the backend unaltered")
		vrt.Assert(string(be.putOpts.IfNoneMatch) == inm, "If-None-Match reaches the backend unaltered")
	}
	vrt.Reach("passthrough")
}
