//go:build verif

package caldav

import (
	"context"
	"errors"
	"fmt"
	"io"
	"io/ioutil"
	"strconv"
	"strings"
	"time"

	"github.com/emersion/go-ical"

	"github.com/emersion/go-webdav"
	"github.com/emersion/go-webdav/internal"
	vrt "github.com/emersion/go-webdav/internal/zz_verifrt"
)

// ---- iCalendar text codec as an uninterpreted pair (symbolic run) ---------
//
// encode writes a token naming the calendar value, decode maps the token
// back: decode(encode(c)) = c. go-ical's real encoder/decoder run natively.

var verifCals []*ical.Calendar
var verifEncW map[*ical.Encoder]io.Writer
var verifDecR map[*ical.Decoder]io.Reader

func verifResetCodec() {
	verifCals = nil
	verifEncW = map[*ical.Encoder]io.Writer{}
	verifDecR = map[*ical.Decoder]io.Reader{}
}

func verifStubICalNewEncoder(w io.Writer) *ical.Encoder {
	e := &ical.Encoder{}
	verifEncW[e] = w
	return e
}

func verifStubICalEncode(e *ical.Encoder, cal *ical.Calendar) error {
	w := verifEncW[e]
	if cal == nil {
		return fmt.Errorf("ical: nil calendar")
	}
	verifCals = append(verifCals, cal)
	_, err := io.WriteString(w, "@cal"+strconv.Itoa(len(verifCals)-1)+";")
	return err
}

func verifStubICalNewDecoder(r io.Reader) *ical.Decoder {
	d := &ical.Decoder{}
	verifDecR[d] = r
	return d
}

func verifStubICalDecodeToken(d *ical.Decoder) (*ical.Calendar, error) {
	r := verifDecR[d]
	if r == nil {
		return nil, io.EOF
	}
	delete(verifDecR, d)
	b, err := ioutil.ReadAll(r)
	if err != nil {
		return nil, err
	}
	s := string(b)
	if !strings.HasPrefix(s, "@cal") || !strings.HasSuffix(s, ";") {
		return nil, fmt.Errorf("ical: malformed")
	}
	id, err := strconv.Atoi(s[4 : len(s)-1])
	if err != nil || id < 0 || id >= len(verifCals) {
		return nil, fmt.Errorf("ical: malformed")
	}
	return verifCals[id], nil
}

// calEq: same calendar (identity over the uninterpreted codec, structural
// equality natively after a real encode/decode).
func calEq(a, b *ical.Calendar) bool {
	if vrt.Symbolic() {
		return a == b
	}
	if a == nil || b == nil {
		return a == b
	}
	return compEq(a.Component, b.Component)
}

func compEq(a, b *ical.Component) bool {
	if a.Name != b.Name || len(a.Props) != len(b.Props) || len(a.Children) != len(b.Children) {
		return false
	}
	for k, pa := range a.Props {
		pb := b.Props[k]
		if len(pa) != len(pb) {
			return false
		}
		for i := range pa {
			if pa[i].Value != pb[i].Value {
				return false
			}
		}
	}
	for i := range a.Children {
		if !compEq(a.Children[i], b.Children[i]) {
			return false
		}
	}
	return true
}

// symText: an arbitrary string; natively restricted by the caller's needs.
func symCalendarObject(i int) CalendarObject {
	tag := "obj" + strconv.Itoa(i)
	co := CalendarObject{
		Path:          "/dav/u/cal/c/" + vrt.StrNIn(tag+"-name", 1, 'a', 'z') + ".ics",
		ETag:          vrt.Text(tag + "-etag"),
		ContentLength: vrt.Int64(tag + "-length"),
		Data:          verifValidCalendar(),
	}
	if vrt.Choose(tag+"-hasmodtime", 2) == 1 {
		co.ModTime = vrt.TimeIn(tag+"-modtime", vrt.Choose(tag+"-zone", 3))
	}
	co.Data.Children[0].Props.SetText(ical.PropUID, "uid-"+strconv.Itoa(i))
	return co
}

func newLoopClientAt(be Backend, endpointPath string) *Client {
	lb := &internal.VerifLoopback{Handler: &Handler{Backend: be, Prefix: "/dav"}}
	if vrt.Symbolic() {
		return &Client{ic: internal.VerifNewClient(lb, endpointPath)}
	}
	c, err := NewClient(lb, "http://dav.example"+endpointPath)
	if err != nil {
		panic(err)
	}
	return c
}

func newLoopClient(be Backend) (*Client, *internal.VerifLoopback) {
	lb := &internal.VerifLoopback{Handler: &Handler{Backend: be, Prefix: "/dav"}}
	ic := internal.VerifNewClient(lb, "/dav/")
	wc := verifWebdavClient(lb)
	return &Client{Client: wc, ic: ic}, lb
}

func verifWebdavClient(hc webdav.HTTPClient) *webdav.Client {
	if vrt.Symbolic() {
		return nil
	}
	wc, err := webdav.NewClient(hc, "http://dav.example/dav/")
	if err != nil {
		panic(err)
	}
	return wc
}

func objEqC10(got *CalendarObject, want *CalendarObject, where string) {
	vrt.Assert(got.Path == want.Path, where+": path")
	vrt.Assert(got.ETag == want.ETag, where+": entity tag")
	if want.ModTime.IsZero() {
		vrt.Assert(got.ModTime.IsZero(), where+": no modification time invented")
	} else {
		vrt.Assert(got.ModTime.Equal(want.ModTime), where+": modification time (to the second)")
	}
	vrt.Assert(calEq(got.Data, want.Data), where+": iCalendar content")
}

// VerifH_C10_MultiGet: a multiget answers every requested href exactly once
// and in request order, with the object or the backend's own error status.
func VerifH_C10_MultiGet() {
	internal.VerifResetWire()
	internal.VerifCopyHook = verifCopy
	verifResetCodec()
	n := vrt.Choose("nhrefs", vrt.Param("maxhrefs", 2)+1)
	be := &verifBackend{principal: "/dav/u/", homeSet: "/dav/u/cal/"}
	var paths []string
	outcome := make([]int, n)
	codes := make([]int, n)
	for i := 0; i < n; i++ {
		co := symCalendarObject(i)
		paths = append(paths, co.Path)
		outcome[i] = vrt.Choose("outcome", 3)
		switch outcome[i] {
		case 0:
			be.objects = append(be.objects, co)
		case 1:
			codes[i] = []int{403, 404, 409, 507}[vrt.Choose("backend-error-code", 4)]
		case 2:
			codes[i] = 500
		}
	}
	// distinct paths so that objects can be told apart
	for i := 0; i < n; i++ {
		for j := i + 1; j < n; j++ {
			vrt.Assume(paths[i] != paths[j])
		}
	}
	be.getErr = func(path string) error {
		for i := range paths {
			if paths[i] == path {
				switch outcome[i] {
				case 1:
					return webdav.NewHTTPError(codes[i], fmt.Errorf("refused"))
				case 2:
					return fmt.Errorf("backend broke")
				}
			}
		}
		return nil
	}
	vrt.Assume(n > 0)

	// server side: one response per href, in order
	h := &Handler{Backend: be, Prefix: "/dav"}
	var doc calendarMultiget
	for _, p := range paths {
		doc.Hrefs = append(doc.Hrefs, internal.Href{Path: p})
	}
	doc.AllProp = &struct{}{}
	rec := newVerifRecorder()
	err := h.handleMultiget(context.Background(), rec, &doc)
	vrt.Assert(err == nil && rec.code == 207, "multiget is answered with a multi-status")
	if err != nil {
		return
	}
	var ms *internal.MultiStatus
	if vrt.Symbolic() {
		ms = internal.VerifServed
	} else {
		ms = &internal.MultiStatus{}
		if err := internal.VerifXMLRoundTripBytes([]byte(strings.Join(rec.parts, "")), ms); err != nil {
			vrt.Fail("multi-status body not readable: " + err.Error())
			return
		}
	}
	vrt.Assert(ms != nil && len(ms.Responses) == n, "multiget: exactly one response per requested href")
	if ms == nil || len(ms.Responses) != n {
		return
	}
	for i := 0; i < n; i++ {
		resp := &ms.Responses[i]
		vrt.Assert(len(resp.Hrefs) == 1 && resp.Hrefs[0].Path == paths[i], "multiget: responses in request order, each carrying its href")
		rerr := resp.Err()
		if outcome[i] == 0 {
			vrt.Assert(rerr == nil, "multiget: an object that exists is reported without error status")
			var data calendarDataResp
			vrt.Assert(resp.DecodeProp(&data) == nil, "multiget: calendar-data of the object is included")
		} else {
			vrt.Assert(rerr != nil, "multiget: a failing href is reported with an error status")
			if he, ok := rerr.(*internal.HTTPError); ok {
				vrt.Assert(he.Code == codes[i], "multiget: the backend's own status for that resource")
			}
		}
	}
	vrt.Reach("multiget")
}

// VerifH_C10_ClientMultiGet: client MultiGet over the loopback: the objects
// the backend holds reach the caller unchanged.
func VerifH_C10_ClientMultiGet() {
	internal.VerifResetWire()
	internal.VerifCopyHook = verifCopy
	verifResetCodec()
	n := 1 + vrt.Choose("nobjects", vrt.Param("maxobjects", 2))
	be := &verifBackend{principal: "/dav/u/", homeSet: "/dav/u/cal/"}
	var paths []string
	for i := 0; i < n; i++ {
		co := symCalendarObject(i)
		// what a conforming backend holds: a tag and size when it has them
		vrt.Assume(co.ContentLength >= 0)
		be.objects = append(be.objects, co)
		paths = append(paths, co.Path)
	}
	for i := 0; i < n; i++ {
		for j := i + 1; j < n; j++ {
			vrt.Assume(paths[i] != paths[j])
		}
	}
	// optionally one more href that the backend refuses with its own status
	// (507 has a standard reason phrase, 509 has none)
	failCode := 0
	if vrt.Choose("failing-href", 2) == 1 {
		failCode = []int{404, 507, 509}[vrt.Choose("failing-code", 3)]
		fc := failCode
		bad := "/dav/u/cal/c/Z-missing"
		paths = append(paths, bad)
		be.getErr = func(path string) error {
			if path == bad {
				return webdav.NewHTTPError(fc, fmt.Errorf("refused"))
			}
			return nil
		}
	}
	// optionally the first href is requested once more at the end: every
	// requested href is answered, in request order
	repeated := false
	if failCode == 0 && n >= 2 && vrt.Choose("first-href-again", 2) == 1 {
		repeated = true
		paths = append(paths, paths[0])
	}
	c, _ := newLoopClient(be)
	got, err := c.MultiGetCalendar(context.Background(), "/dav/u/cal/c/", &CalendarMultiGet{Paths: paths, CompRequest: CalendarCompRequest{Name: "VCALENDAR", AllProps: true, AllComps: true}})
	if failCode != 0 {
		// a resource reported with a non-success status is surfaced as an
		// error carrying the backend's status, never as valid data
		var he *internal.HTTPError
		vrt.Assert(err != nil && errors.As(err, &he) && he.Code == failCode, "MultiGetCalendar: a failing href is surfaced as an error with the backend's status")
		vrt.Reach("client-multiget/failed-href")
		return
	}
	if err != nil {
		vrt.Observe("err", err.Error())
	}
	vrt.Assert(err == nil, "MultiGetCalendar succeeds for existing objects")
	if err != nil {
		return
	}
	vrt.Assert(len(got) == len(paths), "MultiGetCalendar: one object per requested path")
	if len(got) != len(paths) {
		return
	}
	for i := range got {
		want := i
		if repeated && i == n {
			want = 0
		}
		objEqC10(&got[i], &be.objects[want], "MultiGetCalendar")
	}
	vrt.Reach("client-multiget")
}

// VerifH_C10_GetPut: GetCalendarObject / PutCalendarObject over the loopback.
func VerifH_C10_GetPut() {
	internal.VerifResetWire()
	internal.VerifCopyHook = verifCopy
	verifResetCodec()
	be := &verifBackend{principal: "/dav/u/", homeSet: "/dav/u/cal/"}
	co := symCalendarObject(0)
	be.objects = []CalendarObject{co}
	c, _ := newLoopClient(be)
	got, err := c.GetCalendarObject(context.Background(), co.Path)
	vrt.Assert(err == nil && got != nil, "GetCalendarObject succeeds for an existing object")
	if err == nil && got != nil {
		objEqC10(got, &co, "GetCalendarObject")
		if co.ContentLength > 0 {
			vrt.Assert(got.ContentLength == co.ContentLength, "GetCalendarObject: content length")
		}
	}
	// PUT
	cal := verifValidCalendar()
	// the backend stores the object under the request path or elsewhere
	putPath := "/dav/u/cal/c/new.ics"
	storedPath := putPath
	if vrt.Choose("stored-elsewhere", 2) == 1 {
		storedPath = "/dav/u/cal/c/" + vrt.StrNIn("stored-name", 1, 'a', 'z') + ".ics"
	}
	be.putResult = &CalendarObject{Path: storedPath, ETag: vrt.Text("stored-etag")}
	if vrt.Choose("stored-hasmodtime", 2) == 1 {
		be.putResult.ModTime = vrt.TimeIn("stored-modtime", vrt.Choose("stored-zone", 3))
	}
	// the caller may name the resource relative to the client's endpoint
	given := putPath
	if vrt.Choose("relative-put-name", 2) == 1 {
		c = newLoopClientAt(be, "/dav/u/cal/c/")
		given = "new.ics"
	}
	res, err := c.PutCalendarObject(context.Background(), given, cal)
	vrt.Assert(err == nil && res != nil, "PutCalendarObject succeeds")
	if err == nil && res != nil {
		vrt.Assert(calEq(be.putCal, cal), "PUT delivers to the backend a calendar equal to the caller's")
		vrt.Assert(len(be.paths) > 0 && be.paths[len(be.paths)-1] == putPath, "PUT is addressed to the named resource")
		vrt.Assert(res.Path == be.putResult.Path, "PUT hands back the backend's path")
		vrt.Assert(res.ETag == be.putResult.ETag, "PUT hands back the backend's entity tag")
		if be.putResult.ModTime.IsZero() {
			vrt.Assert(res.ModTime.IsZero(), "PUT: no modification time invented")
		} else {
			vrt.Assert(res.ModTime.Equal(be.putResult.ModTime), "PUT hands back the backend's modification time")
		}
	}
	vrt.Reach("getput")
}

// VerifH_C10_Discovery: home set and calendars reach the client unchanged.
func VerifH_C10_Discovery() {
	internal.VerifResetWire()
	internal.VerifCopyHook = verifCopy
	verifResetCodec()
	be := &verifBackend{principal: "/dav/u/", homeSet: "/dav/u/cal/"}
	n := vrt.Choose("ncalendars", vrt.Param("maxcalendars", 2)+1)
	for i := 0; i < n; i++ {
		tag := "cal" + strconv.Itoa(i)
		cal := Calendar{Path: "/dav/u/cal/" + vrt.StrNIn(tag+"-name", 1, 'a', 'z') + "/", Name: vrt.Text(tag + "-displayname"), Description: vrt.Text(tag + "-description"), MaxResourceSize: vrt.Int64(tag + "-maxsize")}
		vrt.Assume(cal.MaxResourceSize >= 0)
		switch vrt.Choose(tag+"-components", 3) {
		case 1:
			cal.SupportedComponentSet = []string{"VEVENT"}
		case 2:
			cal.SupportedComponentSet = []string{"VEVENT", vrt.Text(tag + "-comp")}
		}
		be.calendars = append(be.calendars, cal)
	}
	for i := 0; i < n; i++ {
		for j := i + 1; j < n; j++ {
			vrt.Assume(be.calendars[i].Path != be.calendars[j].Path)
		}
	}
	c, _ := newLoopClient(be)
	hs, err := c.FindCalendarHomeSet(context.Background(), "/dav/u/")
	vrt.Assert(err == nil && hs == "/dav/u/cal/", "FindCalendarHomeSet returns the backend's home set path")
	cals, err := c.FindCalendars(context.Background(), "/dav/u/cal/")
	vrt.Assert(err == nil, "FindCalendars succeeds")
	if err != nil {
		return
	}
	vrt.Assert(len(cals) == n, "FindCalendars: exactly the backend's calendars")
	if len(cals) != n {
		return
	}
	for i := range cals {
		want := &be.calendars[i]
		vrt.Assert(cals[i].Path == want.Path, "calendar path")
		vrt.Assert(cals[i].Name == want.Name, "calendar display name")
		vrt.Assert(cals[i].Description == want.Description, "calendar description")
		vrt.Assert(cals[i].MaxResourceSize == want.MaxResourceSize, "calendar size limit")
		wantComps := want.SupportedComponentSet
		if wantComps == nil {
			wantComps = []string{"VEVENT"} // RFC 4791 5.2.3 default announced by the server
		}
		vrt.Assert(len(cals[i].SupportedComponentSet) == len(wantComps), "supported component set size")
		if len(cals[i].SupportedComponentSet) == len(wantComps) {
			for k := range wantComps {
				vrt.Assert(cals[i].SupportedComponentSet[k] == wantComps[k], "supported component set")
			}
		}
	}
	vrt.Reach("discovery")
}

var _ = time.Second

// VerifH_C10_HeaderTags: the entity tag crosses GET and PUT answers as a
// header: for every tag of one or two arbitrary bytes (the real strconv
// quoting and unquoting code runs on them) GetCalendarObject and PutCalendarObject
// hand back exactly the backend's tag.
func VerifH_C10_HeaderTags() {
	internal.VerifResetWire()
	internal.VerifCopyHook = verifCopy
	verifResetCodec()
	tag := vrt.StrN("etag", 1+vrt.Choose("etag-len", vrt.Param("etaglen", 2)))
	be := &verifBackend{principal: "/dav/u/", homeSet: "/dav/u/cal/"}
	obj := CalendarObject{Path: "/dav/u/cal/c/o.x", ETag: tag, Data: verifValidCalendar()}
	be.objects = []CalendarObject{obj}
	c, _ := newLoopClient(be)
	got, err := c.GetCalendarObject(context.Background(), obj.Path)
	vrt.Assert(err == nil && got != nil && got.ETag == tag, "GetCalendarObject hands back the backend's entity tag")
	be.putResult = &CalendarObject{Path: obj.Path, ETag: tag}
	res, err := c.PutCalendarObject(context.Background(), obj.Path, verifValidCalendar())
	vrt.Assert(err == nil && res != nil && res.ETag == tag, "PutCalendarObject hands back the backend's entity tag")
	vrt.Reach("header-tags")
}
