//go:build verif

package caldav

import (
	"context"
	"net/http"

	"github.com/emersion/go-ical"
	"github.com/emersion/go-webdav"
	"github.com/emersion/go-webdav/internal"
	vrt "github.com/emersion/go-webdav/internal/zz_verifrt"
)

func verifCopy(dst, src interface{}) bool {
	switch d := dst.(type) {
	case *calendarDataReq:
		if s, ok := src.(*calendarDataReq); ok {
			*d = *s
			return true
		}
	case *calendarDataResp:
		if s, ok := src.(*calendarDataResp); ok {
			*d = *s
			return true
		}
	case *calendarHomeSet:
		if s, ok := src.(*calendarHomeSet); ok {
			*d = *s
			return true
		}
	case *calendarDescription:
		if s, ok := src.(*calendarDescription); ok {
			*d = *s
			return true
		}
	case *supportedCalendarData:
		if s, ok := src.(*supportedCalendarData); ok {
			*d = *s
			return true
		}
	case *supportedCalendarComponentSet:
		if s, ok := src.(*supportedCalendarComponentSet); ok {
			*d = *s
			return true
		}
	case *maxResourceSize:
		if s, ok := src.(*maxResourceSize); ok {
			*d = *s
			return true
		}
	case *reportReq:
		switch s := src.(type) {
		case *reportReq:
			*d = *s
			return true
		case *calendarQuery:
			*d = reportReq{Query: s}
			return true
		case *calendarMultiget:
			*d = reportReq{Multiget: s}
			return true
		}
	case *mkcolReq:
		if s, ok := src.(*mkcolReq); ok {
			*d = *s
			return true
		}
	}
	return false
}

func verifPropGet(p *internal.Prop, dst interface{}) bool {
	if p == nil {
		return false
	}
	if vrt.Symbolic() {
		for i := range p.Raw {
			if out := p.Raw[i].VerifOut(); out != nil && verifCopy(dst, out) {
				return true
			}
		}
		return false
	}
	return p.Decode(dst) == nil
}

type verifRecorder struct {
	hdr   http.Header
	code  int
	parts []string
}

func newVerifRecorder() *verifRecorder { return &verifRecorder{hdr: http.Header{}} }

func (r *verifRecorder) Header() http.Header { return r.hdr }
func (r *verifRecorder) WriteHeader(code int) {
	if r.code == 0 {
		r.code = code
	}
}
func (r *verifRecorder) Write(b []byte) (int, error) {
	if r.code == 0 {
		r.code = 200
	}
	r.parts = append(r.parts, string(b))
	return len(b), nil
}
func (r *verifRecorder) WriteString(s string) (int, error) {
	if r.code == 0 {
		r.code = 200
	}
	r.parts = append(r.parts, s)
	return len(s), nil
}

type verifBackend struct {
	principal, homeSet string
	calls              []string
	paths              []string
	query              *CalendarQuery
	compReqs           []*CalendarCompRequest
	putCal             *ical.Calendar
	putOpts            *PutCalendarObjectOptions
	created            *Calendar
	objects            []CalendarObject
	calendars          []Calendar
	getErr             func(path string) error
	putResult          *CalendarObject
	mutations          int
}

func (b *verifBackend) note(call, path string) {
	b.calls = append(b.calls, call)
	b.paths = append(b.paths, path)
}

func (b *verifBackend) CurrentUserPrincipal(ctx context.Context) (string, error) {
	return b.principal, nil
}
func (b *verifBackend) CalendarHomeSetPath(ctx context.Context) (string, error) {
	return b.homeSet, nil
}
func (b *verifBackend) CreateCalendar(ctx context.Context, calendar *Calendar) error {
	b.note("CreateCalendar", calendar.Path)
	b.created = calendar
	b.mutations++
	return nil
}
func (b *verifBackend) ListCalendars(ctx context.Context) ([]Calendar, error) {
	b.note("ListCalendars", "")
	return b.calendars, nil
}
func (b *verifBackend) GetCalendar(ctx context.Context, path string) (*Calendar, error) {
	b.note("GetCalendar", path)
	for i := range b.calendars {
		if b.calendars[i].Path == path {
			return &b.calendars[i], nil
		}
	}
	return nil, webdav.NewHTTPError(404, nil)
}
func (b *verifBackend) GetCalendarObject(ctx context.Context, path string, req *CalendarCompRequest) (*CalendarObject, error) {
	b.note("GetCalendarObject", path)
	b.compReqs = append(b.compReqs, req)
	if b.getErr != nil {
		if err := b.getErr(path); err != nil {
			return nil, err
		}
	}
	for i := range b.objects {
		if b.objects[i].Path == path {
			return &b.objects[i], nil
		}
	}
	return nil, webdav.NewHTTPError(404, nil)
}
func (b *verifBackend) ListCalendarObjects(ctx context.Context, path string, req *CalendarCompRequest) ([]CalendarObject, error) {
	b.note("ListCalendarObjects", path)
	return b.objects, nil
}
func (b *verifBackend) QueryCalendarObjects(ctx context.Context, path string, query *CalendarQuery) ([]CalendarObject, error) {
	b.note("QueryCalendarObjects", path)
	b.query = query
	return nil, nil
}
func (b *verifBackend) PutCalendarObject(ctx context.Context, path string, calendar *ical.Calendar, opts *PutCalendarObjectOptions) (*CalendarObject, error) {
	b.note("PutCalendarObject", path)
	b.putCal, b.putOpts = calendar, opts
	b.mutations++
	if b.putResult != nil {
		return b.putResult, nil
	}
	return &CalendarObject{Path: path}, nil
}
func (b *verifBackend) DeleteCalendarObject(ctx context.Context, path string) error {
	b.note("DeleteCalendarObject", path)
	b.mutations++
	return nil
}

var _ Backend = (*verifBackend)(nil)
