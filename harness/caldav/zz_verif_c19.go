//go:build verif

package caldav

import (
	"github.com/emersion/go-ical"

	vrt "github.com/emersion/go-webdav/internal/zz_verifrt"
)

// VerifH_C19_Validate: ValidateCalendarObject against the RFC 4791 4.1 rules.
//
// Symbolic: every component name (opaque string, any length, assumed
// non-empty), presence of METHOD, presence of UID per component, UID values
// (exploded, 1..maxuid bytes, every byte value except '\\' and ',' i.e.
// well-formed unescaped TEXT). Case-split: number of components 0..maxcomps.
func VerifH_C19_Validate() {
	maxN := vrt.Param("maxcomps", 3)
	maxUID := vrt.Param("maxuid", 2)
	n := vrt.Choose("n", maxN+1)

	cal := &ical.Calendar{Component: &ical.Component{Name: ical.CompCalendar, Props: ical.Props{}}}
	hasMethod := vrt.Bool("method")
	if hasMethod {
		// any value, the empty one included: presence alone disqualifies
		mv := vrt.StrN("method-value", vrt.Choose("method-len", 3))
		for k := 0; k < len(mv); k++ {
			vrt.Assume(mv[k] != '\\')
		}
		cal.Props[ical.PropMethod] = []ical.Prop{{Name: ical.PropMethod, Value: mv}}
	}
	names := make([]string, n)
	uids := make([]string, n)
	has := make([]bool, n)
	for i := 0; i < n; i++ {
		names[i] = vrt.Str("name")
		vrt.Assume(names[i] != "")
		c := &ical.Component{Name: names[i], Props: ical.Props{}}
		has[i] = vrt.Bool("hasuid")
		if has[i] {
			ulen := 1 + vrt.Choose("uidlen", maxUID)
			u := vrt.StrN("uid", ulen)
			for k := 0; k < len(u); k++ {
				vrt.Assume(u[k] != '\\' && u[k] != ',')
			}
			uids[i] = u
			c.Props[ical.PropUID] = []ical.Prop{{Name: ical.PropUID, Value: u}}
		}
		cal.Children = append(cal.Children, c)
	}

	typ, uid, err := ValidateCalendarObject(cal)

	// reference (pairwise formulation of RFC 4791 section 4.1)
	oneType := true
	oneUID := true
	for i := 0; i < n; i++ {
		for j := i + 1; j < n; j++ {
			if names[i] != ical.CompTimezone && names[j] != ical.CompTimezone && names[i] != names[j] {
				oneType = false
			}
			if has[i] && has[j] && uids[i] != uids[j] {
				oneUID = false
			}
		}
	}
	wantType, wantUID := "", ""
	for i := n - 1; i >= 0; i-- {
		if names[i] != ical.CompTimezone {
			wantType = names[i]
		}
		if has[i] {
			wantUID = uids[i]
		}
	}
	accept := !hasMethod && oneType && oneUID

	vrt.Assert((err == nil) == accept, "accepted iff no METHOD, one component type besides VTIMEZONE, one UID")
	if err == nil {
		vrt.Assert(typ == wantType, "accepted: returns the single component type")
		vrt.Assert(uid == wantUID, "accepted: returns the single UID")
		vrt.Reach("accepted")
	} else {
		vrt.Assert(typ == "" && uid == "", "rejected: empty results with the error")
		vrt.Reach("rejected")
	}
}
