//go:build verif

package caldav

import (
	"bytes"
	"encoding/xml"
	"fmt"
	"io"
	"io/ioutil"
	"net/http"
	"net/url"
	"regexp"

	"github.com/emersion/go-ical"

	"github.com/emersion/go-webdav/internal"
	vrt "github.com/emersion/go-webdav/internal/zz_verifrt"
)

var verifMethods = []string{"OPTIONS", "GET", "HEAD", "PUT", "DELETE", "PROPFIND", "PROPPATCH", "MKCOL", "COPY", "MOVE", "REPORT"}

var verifLevelPaths = []string{"/dav/", "/dav/u/", "/dav/u/cal/", "/dav/u/cal/c/", "/dav/u/cal/c/o.ics", "/dav/u/cal/c/o/x"}

// verifDecodeResult: what the iCalendar decoder delivers (stub of
// (*ical.Decoder).Decode in the symbolic run).
var verifICalFails bool

func verifStubICalDecode(dec *ical.Decoder) (*ical.Calendar, error) {
	if verifICalFails {
		return nil, fmt.Errorf("ical: malformed")
	}
	cal := ical.NewCalendar()
	return cal, nil
}

type verifBody struct {
	r     io.Reader
	empty bool
	fails bool
}

// verifBodyUnreadable: the request body fails on its first Read (a broken
// chunk header, a body closed by middleware).
var verifBodyUnreadable bool

func (b *verifBody) Read(p []byte) (int, error) {
	if b.fails {
		return 0, io.ErrUnexpectedEOF
	}
	if b.empty {
		return 0, io.EOF
	}
	if b.r != nil {
		return b.r.Read(p)
	}
	if len(p) == 0 {
		return 0, nil
	}
	p[0] = '<'
	b.empty = true
	return 1, nil
}
func (b *verifBody) Close() error { return nil }

const verifValidICal = "BEGIN:VCALENDAR\r\nVERSION:2.0\r\nPRODID:-//x//y//EN\r\nBEGIN:VEVENT\r\nUID:u1\r\nDTSTAMP:20200101T000000Z\r\nDTSTART:20200101T000000Z\r\nEND:VEVENT\r\nEND:VCALENDAR\r\n"

// verifRequest builds the request: symbolically the decoded body is handed
// to the DecodeXMLRequest stub, natively the same struct is marshalled to
// real XML.
func verifRequest(method, path string, hdr http.Header, xmlBody interface{}, xmlBroken bool, rawBody string, emptyBody bool) *http.Request {
	r := &http.Request{Method: method, URL: &url.URL{Path: path}, Header: hdr}
	internal.VerifRequestBody, internal.VerifRequestBodyErr = xmlBody, xmlBroken
	if verifBodyUnreadable {
		r.Body = &verifBody{fails: true}
		return r
	}
	if vrt.Symbolic() {
		r.Body = &verifBody{empty: emptyBody}
		return r
	}
	switch {
	case emptyBody:
		r.Body = ioutil.NopCloser(bytes.NewReader(nil))
	case rawBody != "":
		r.Body = ioutil.NopCloser(bytes.NewReader([]byte(rawBody)))
	case xmlBroken && internal.VerifRequestBodyRepairable && xmlBody != nil:
		b, err := xml.Marshal(xmlBody)
		if err != nil {
			b = []byte("<marshal-error")
		}
		r.Body = ioutil.NopCloser(bytes.NewReader(internal.VerifUnquoteFirstAttr(b)))
	case xmlBroken || xmlBody == nil:
		r.Body = ioutil.NopCloser(bytes.NewReader([]byte("<broken")))
	default:
		if rr, ok := xmlBody.(*reportReq); ok {
			switch {
			case rr.Query != nil:
				xmlBody = rr.Query
			case rr.Multiget != nil:
				xmlBody = rr.Multiget
			default:
				xmlBody = &internal.PropFind{AllProp: &struct{}{}} // wrongly rooted
			}
		}
		b, err := xml.Marshal(xmlBody)
		if err != nil {
			b = []byte("<marshal-error")
		}
		if verifBogusExpand {
			// (compiled here, natively only: package-level initialisers are
			// executed on every symbolic path)
			b = regexp.MustCompile(`start="[^"]*"`).ReplaceAll(b, []byte(`start="bogus"`))
		}
		r.Body = ioutil.NopCloser(bytes.NewReader(b))
	}
	return r
}

// symBroken: the body is not XML at all (nil), or it is not well-formed in a
// way a decoder that is not strict repairs into the given document.
func symBroken(repaired interface{}) interface{} {
	if vrt.Choose("broken-kind", 2) == 1 {
		internal.VerifRequestBodyRepairable = true
		return repaired
	}
	return nil
}

// symHeaderValue: absent, or one of the given literals, or an arbitrary string.
func symHeaderValue(hdr http.Header, name string, literals []string) (string, bool) {
	k := vrt.Choose(name+"-form", len(literals)+2)
	switch {
	case k == 0:
		return "", false
	case k <= len(literals):
		hdr.Set(name, literals[k-1])
		return literals[k-1], true
	}
	v := vrt.Str(name)
	vrt.Assume(v != "")
	hdr[name] = []string{v}
	return v, true
}

// symCalendarData: a calendar-data request element of bounded shape with
// the mutually exclusive combinations and, for expand, attribute text
// outside the date grammar (the typed decode of the raw property fails then).
func symCalendarData() (*internal.Prop, bool) {
	malformed := false
	cd := &calendarDataReq{}
	if vrt.Choose("cd-hascomp", 2) == 1 {
		c := comp{Name: "VCALENDAR"}
		if vrt.Bool("cd-allprop") {
			c.Allprop = &struct{}{}
		}
		if vrt.Choose("cd-hasprop", 2) == 1 {
			c.Prop = append(c.Prop, prop{Name: "VERSION"})
			if c.Allprop != nil {
				malformed = true
			}
		}
		if vrt.Bool("cd-allcomp") {
			c.Allcomp = &struct{}{}
		}
		if vrt.Choose("cd-hassub", 2) == 1 {
			c.Comp = append(c.Comp, comp{Name: "VEVENT"})
			if c.Allcomp != nil {
				malformed = true
			}
		}
		cd.Comp = &c
	}
	switch vrt.Choose("cd-expand", 3) {
	case 1:
		cd.Expand = &expand{Start: dateWithUTCTime(vrt.Time("expand-start")), End: dateWithUTCTime(vrt.Time("expand-end"))}
	case 2:
		// start="..." carries text that is not a date
		cd.Expand = &expand{Start: dateWithUTCTime(vrt.Time("expand-start")), End: dateWithUTCTime(vrt.Time("expand-end"))}
		internal.VerifRawDecodeBad = cd
		verifBogusExpand = true
		malformed = true
	}
	p, _ := internal.EncodeProp(cd)
	return p, malformed
}

var verifBogusExpand bool

// symReportBody: a REPORT body of bounded shape including the mutually
// exclusive combinations; returns the struct and whether it is malformed.
func symReportBody() (interface{}, bool) {
	switch vrt.Choose("report-kind", 3) {
	case 0: // calendar-query
		q := &calendarQuery{}
		malformed := false
		cf := compFilter{Name: "VCALENDAR"}
		sub := compFilter{Name: vrt.Str("cfname")}
		if vrt.Bool("cf-isnotdefined") {
			sub.IsNotDefined = &struct{}{}
		}
		if vrt.Choose("cf-hasprop", 2) == 1 {
			pf := propFilter{Name: vrt.Str("pfname")}
			if vrt.Bool("pf-isnotdefined") {
				pf.IsNotDefined = &struct{}{}
			}
			if vrt.Choose("pf-hastext", 2) == 1 {
				pf.TextMatch = &textMatch{Text: vrt.Str("text")}
				if pf.IsNotDefined != nil {
					malformed = true
				}
			}
			if vrt.Choose("pf-hasparam", 2) == 1 {
				par := paramFilter{Name: vrt.Str("paramname")}
				if vrt.Bool("param-isnotdefined") {
					par.IsNotDefined = &struct{}{}
				}
				if vrt.Choose("param-hastext", 2) == 1 {
					par.TextMatch = &textMatch{Text: vrt.Str("paramtext")}
					if par.IsNotDefined != nil {
						malformed = true
					}
				}
				pf.ParamFilter = append(pf.ParamFilter, par)
				if pf.IsNotDefined != nil {
					malformed = true
				}
			}
			sub.PropFilters = append(sub.PropFilters, pf)
			if sub.IsNotDefined != nil {
				malformed = true
			}
		}
		cf.CompFilters = append(cf.CompFilters, sub)
		q.Filter.CompFilter = cf
		switch vrt.Choose("query-propform", 3) {
		case 0:
			q.AllProp = &struct{}{}
		case 1:
			q.PropName = &struct{}{}
		case 2:
			p, bad := symCalendarData()
			if bad {
				malformed = true
			}
			q.Prop = p
		}
		return q, malformed
	case 1: // calendar-multiget
		mg := &calendarMultiget{}
		n := vrt.Choose("nhrefs", 3)
		for i := 0; i < n; i++ {
			mg.Hrefs = append(mg.Hrefs, internal.Href{Path: "/dav/u/cal/c/" + string(rune('a'+i)) + ".ics"})
		}
		if vrt.Choose("multiget-propform", 2) == 0 {
			mg.AllProp = &struct{}{}
			return mg, false
		}
		p, bad := symCalendarData()
		mg.Prop = p
		return mg, bad
	}
	return nil, true // neither: wrongly rooted document
}

// VerifH_C13_Handler: every request to the CalDAV handler is answered
// without panicking; malformed requests get 4xx and never reach a create,
// update or delete call of the backend.
func VerifH_C13_Handler() {
	internal.VerifResetWire()
	verifBodyUnreadable = false
	defer func() { verifBodyUnreadable = false }()
	verifBogusExpand = false
	internal.VerifCopyHook = verifCopy
	be := &verifBackend{principal: "/dav/u/", homeSet: "/dav/u/cal/"}
	be.calendars = []Calendar{{Path: "/dav/u/cal/c/", Name: "c"}}
	be.objects = []CalendarObject{{Path: "/dav/u/cal/c/o.ics", ETag: "e", Data: verifValidCalendar()}}
	h := &Handler{Backend: be, Prefix: "/dav"}

	method := ""
	mi := vrt.Choose("method", len(verifMethods)+1)
	if mi < len(verifMethods) {
		method = verifMethods[mi]
	} else {
		method = vrt.Str("unknown-method")
		for _, m := range verifMethods {
			vrt.Assume(method != m)
		}
	}
	level := vrt.Choose("level", len(verifLevelPaths))
	deep := vrt.Param("deep", 0) == 1
	if method == "REPORT" && !deep {
		// the REPORT body interpretations do not depend on the level: two
		// levels only (all six with parameter deep)
		vrt.Assume(level == 3 || level == 4)
	}
	path := verifLevelPaths[level]
	hdr := http.Header{}
	malformed := false
	rawBody := ""
	emptyBody := false
	var xmlBody interface{}
	xmlBroken := false

	switch method {
	case "DELETE":
		// RFC 4918 9.6.1: any Depth but infinity is invalid for DELETE
		if d, ok := symHeaderValue(hdr, "Depth", []string{"0", "1", "infinity"}); ok && d != "infinity" {
			malformed = true
		}
	case "PROPFIND":
		if d, ok := symHeaderValue(hdr, "Depth", []string{"0", "1", "infinity"}); ok && d != "0" && d != "1" && d != "infinity" {
			malformed = true
		}
		switch vrt.Choose("propfind-body", 4) {
		case 0:
			emptyBody = true // no body: allprop
		case 1:
			hdr.Set("Content-Type", "text/xml")
			xmlBroken = true
			malformed = true
			xmlBody = symBroken(&internal.PropFind{AllProp: &struct{}{}})
		case 2:
			switch vrt.Choose("propfind-content-type", 3) {
			case 0:
				hdr.Set("Content-Type", "application/xml; charset=utf-8")
			case 1:
				hdr.Set("Content-Type", "text/xml")
			case 2:
				// a media type parameter without a value: not a valid Content-Type
				hdr.Set("Content-Type", "text/xml;charset")
				malformed = true
			}
			pf := &internal.PropFind{}
			switch vrt.Choose("propfind-form", 6) {
			case 0:
				pf.AllProp = &struct{}{}
			case 1:
				pf.PropName = &struct{}{}
			case 2:
				pf.Prop = &internal.Prop{Raw: []internal.RawXMLValue{*internal.NewRawXMLElement(internal.GetETagName, nil, nil)}}
			case 3:
				malformed = true // none of the three forms
			case 4:
				// propname, allprop and prop are mutually exclusive (RFC 4918 14.20)
				pf.AllProp = &struct{}{}
				pf.PropName = &struct{}{}
				malformed = true
			case 5:
				pf.AllProp = &struct{}{}
				pf.Prop = &internal.Prop{Raw: []internal.RawXMLValue{*internal.NewRawXMLElement(internal.GetETagName, nil, nil)}}
				malformed = true
			}
			xmlBody = pf
		case 3:
			// a body that is not announced as XML
			hdr.Set("Content-Type", "text/plain")
			rawBody = "x"
			malformed = true
		}
	case "REPORT":
		switch vrt.Choose("report-ct", 4) {
		case 0:
			hdr.Set("Content-Type", "text/xml")
		case 1:
			hdr.Set("Content-Type", "application/xml")
		case 3:
			hdr.Set("Content-Type", "application/xml; charset")
			malformed = true
		case 2:
			hdr.Set("Content-Type", "text/calendar")
			malformed = true
		}
		if hdr.Get("Content-Type") != "text/xml" && !deep {
			// the other announcements carry one plain well-formed query
			xmlBody = &reportReq{Query: &calendarQuery{AllProp: &struct{}{}, Filter: filter{CompFilter: compFilter{Name: "VCALENDAR"}}}}
		} else if vrt.Choose("report-broken", 2) == 1 {
			xmlBroken = true
			malformed = true
		} else {
			var bad bool
			xmlBody, bad = symReportBody()
			if bad {
				malformed = true
			}
			if xmlBody != nil {
				switch b := xmlBody.(type) {
				case *calendarQuery:
					xmlBody = &reportReq{Query: b}
				case *calendarMultiget:
					xmlBody = &reportReq{Multiget: b}
				}
			} else {
				xmlBody = &reportReq{}
			}
		}
	case "PUT":
		cts := []string{"", "text/calendar", "text/calendar; charset=utf-8", "text/plain", ";;bad", "text/calendar;charset"}
		ct := cts[vrt.Choose("content-type", len(cts))]
		if ct != "" {
			hdr.Set("Content-Type", ct)
		}
		if ct != "text/calendar" && ct != "text/calendar; charset=utf-8" {
			malformed = true
		}
		verifICalFails = vrt.Choose("ical-decodes", 2) == 0
		if verifICalFails {
			malformed = true
			rawBody = "BEGIN:VCALENDAR\r\nBROKEN"
		} else {
			rawBody = verifValidICal
		}
		symHeaderValue(hdr, "If-Match", []string{"*", "\"e\""})
		symHeaderValue(hdr, "If-None-Match", []string{"*"})
	case "MKCOL":
		switch vrt.Choose("mkcol-body", 4) {
		case 3:
			// the body cannot be read at all: the request cannot be
			// interpreted, nothing may be created
			hdr.Set("Content-Type", "text/xml")
			verifBodyUnreadable = true
			xmlBroken = true
			if path == verifLevelPaths[3] {
				malformed = true
			}
		case 0:
			emptyBody = true
		case 1:
			hdr.Set("Content-Type", "text/xml")
			xmlBroken = true
			if path == verifLevelPaths[3] {
				malformed = true
			}
			xmlBody = symBroken(&mkcolReq{ResourceType: *internal.NewResourceType(internal.CollectionName, calendarName), DisplayName: "x"})
		case 2:
			hdr.Set("Content-Type", "text/xml")
			m := &mkcolReq{DisplayName: vrt.Str("displayname")}
			if vrt.Bool("mkcol-iscalendar") {
				m.ResourceType = *internal.NewResourceType(internal.CollectionName, calendarName)
			} else {
				m.ResourceType = *internal.NewResourceType(internal.CollectionName)
				if path == verifLevelPaths[3] {
					malformed = true
				}
			}
			xmlBody = m
		}
	case "COPY", "MOVE":
		dst := vrt.Choose("destination", 3)
		switch dst {
		case 0:
			malformed = true // missing
		case 1:
			hdr.Set("Destination", "http://dav.example/dav/u/cal/c/p.ics")
		case 2:
			hdr.Set("Destination", "http://dav.example/%zz")
			malformed = true
		}
		if o, ok := symHeaderValue(hdr, "Overwrite", []string{"T", "F"}); ok && o != "T" && o != "F" {
			malformed = true
		}
		if d, ok := symHeaderValue(hdr, "Depth", []string{"0", "infinity"}); ok && d != "0" && d != "1" && d != "infinity" {
			malformed = true
		}
	case "PROPPATCH":
		switch vrt.Choose("proppatch-body", 2) {
		case 0:
			hdr.Set("Content-Type", "text/xml")
			xmlBroken = true
			malformed = true
		case 1:
			hdr.Set("Content-Type", "text/xml")
			xmlBody = &internal.PropertyUpdate{}
		}
	}

	r := verifRequest(method, path, hdr, xmlBody, xmlBroken, rawBody, emptyBody)
	rec := newVerifRecorder()
	panicked := interface{}(nil)
	func() {
		defer func() { panicked = recover() }()
		h.ServeHTTP(rec, r)
	}()
	vrt.Assert(panicked == nil, "handler must not panic")
	if panicked != nil {
		return
	}
	if rec.code == 0 {
		rec.code = 200 // net/http answers 200 when the handler returns without writing
	}
	if malformed {
		mname := method
		if mi >= len(verifMethods) {
			mname = "unknown-method"
		}
		vrt.Assert(rec.code >= 400 && rec.code < 500, "malformed "+mname+" request must be answered 4xx")
		vrt.Assert(be.mutations == 0, "malformed "+mname+" request must not reach a create/update/delete call of the backend")
		vrt.Reach("handler/malformed")
	} else {
		vrt.Assert(rec.code < 500 || rec.code == 501, "well-formed request must not fail with a server error")
		vrt.Reach("handler/wellformed")
	}
}

func verifValidCalendar() *ical.Calendar {
	cal := ical.NewCalendar()
	cal.Props.SetText(ical.PropVersion, "2.0")
	cal.Props.SetText(ical.PropProductID, "-//x//y//EN")
	ev := ical.NewComponent(ical.CompEvent)
	ev.Props.SetText(ical.PropUID, "u1")
	ev.Props[ical.PropDateTimeStamp] = []ical.Prop{{Name: ical.PropDateTimeStamp, Params: ical.Params{}, Value: "20200101T000000Z"}}
	ev.Props[ical.PropDateTimeStart] = []ical.Prop{{Name: ical.PropDateTimeStart, Params: ical.Params{}, Value: "20200101T000000Z"}}
	cal.Children = append(cal.Children, ev)
	return cal
}

// VerifH_C13_Enumerations: the decoder of the negate-condition attribute
// accepts exactly yes and no, for opaque texts of any length and for every
// three-byte string; whatever it refuses makes the XML decoder fail, which
// DecodeXMLRequest answers 400.
func VerifH_C13_Enumerations() {
	text := vrt.Str("negate-condition")
	if vrt.Choose("negate-condition-form", 2) == 1 {
		text = vrt.StrNIn("negate-condition-bytes", 2+vrt.Choose("negate-condition-len", 2), 0, 0x7f)
	}
	var nc negateCondition
	err := nc.UnmarshalText([]byte(text))
	vrt.Assert((err == nil) == (text == "yes" || text == "no"), "negate-condition attribute: exactly yes and no are accepted")
	if err == nil {
		vrt.Assert(bool(nc) == (text == "yes"), "negate-condition attribute: decoded value")
	}
	vrt.Reach("enumerations")
}
