//go:build verif

package caldav

import (
	"strings"
	"time"

	"github.com/emersion/go-ical"

	vrt "github.com/emersion/go-webdav/internal/zz_verifrt"
)

// ---------------------------------------------------------------------------
// RFC 4791 section 9.9, VEVENT rows (absent start = -inf, absent end = +inf):
//
//	DTEND           : start <  DTEND           and end > DTSTART
//	DURATION > 0    : start <  DTSTART+DURATION and end > DTSTART
//	DURATION = 0    : start <= DTSTART          and end > DTSTART
//	neither, D-TIME : start <= DTSTART          and end > DTSTART
//	neither, DATE   : start <  DTSTART+P1D      and end > DTSTART
func refEventOverlap(hasStart bool, start time.Time, hasEnd bool, end time.Time, dtstart, effEnd time.Time, zeroLen bool) bool {
	okStart := true
	if hasStart {
		if zeroLen {
			okStart = !start.After(dtstart) // start <= DTSTART
		} else {
			okStart = start.Before(effEnd) // start < end of event
		}
	}
	okEnd := true
	if hasEnd {
		okEnd = end.After(dtstart) // end > DTSTART
	}
	return okStart && okEnd
}

func dtProp(name string, t time.Time) []ical.Prop {
	return []ical.Prop{{Name: name, Params: ical.Params{}, Value: vrt.ICalTime(t)}}
}

func dateProp(name string, t time.Time) []ical.Prop {
	return []ical.Prop{{Name: name, Params: ical.Params{ical.ParamValue: []string{"DATE"}}, Value: vrt.ICalDate(t)}}
}

// symEvent builds a VEVENT that states its end in one of six ways and
// returns its DTSTART, effective end and whether it has zero length.
func symEvent(form int) (*ical.Component, time.Time, time.Time, bool) {
	ev := &ical.Component{Name: ical.CompEvent, Props: ical.Props{}}
	var dtstart, effEnd time.Time
	zeroLen := false
	switch form {
	case 0: // DTSTART + DTEND, both DATE-TIME
		dtstart = vrt.Time("dtstart")
		effEnd = vrt.Time("dtend")
		vrt.Assume(dtstart.Before(effEnd))
		ev.Props[ical.PropDateTimeStart] = dtProp(ical.PropDateTimeStart, dtstart)
		ev.Props[ical.PropDateTimeEnd] = dtProp(ical.PropDateTimeEnd, effEnd)
	case 1: // DTSTART + DURATION > 0
		dtstart = vrt.Time("dtstart")
		dur := vrt.DurationSec("duration", 1, 400*86400)
		effEnd = dtstart.Add(dur)
		ev.Props[ical.PropDateTimeStart] = dtProp(ical.PropDateTimeStart, dtstart)
		ev.Props[ical.PropDuration] = []ical.Prop{{Name: ical.PropDuration, Params: ical.Params{}, Value: vrt.ICalDuration(dur)}}
	case 2: // DTSTART + DURATION = 0
		dtstart = vrt.Time("dtstart")
		effEnd = dtstart
		zeroLen = true
		ev.Props[ical.PropDateTimeStart] = dtProp(ical.PropDateTimeStart, dtstart)
		ev.Props[ical.PropDuration] = []ical.Prop{{Name: ical.PropDuration, Params: ical.Params{}, Value: vrt.ICalDuration(0)}}
	case 3: // DTSTART (DATE-TIME) only: an instant
		dtstart = vrt.Time("dtstart")
		effEnd = dtstart
		zeroLen = true
		ev.Props[ical.PropDateTimeStart] = dtProp(ical.PropDateTimeStart, dtstart)
	case 4: // DTSTART (DATE) only: one day
		dtstart = vrt.Date("dtstart")
		effEnd = dtstart.Add(24 * time.Hour)
		ev.Props[ical.PropDateTimeStart] = dateProp(ical.PropDateTimeStart, dtstart)
	case 5: // DTSTART and DTEND as DATE
		dtstart = vrt.Date("dtstart")
		effEnd = vrt.Date("dtend")
		vrt.Assume(dtstart.Before(effEnd))
		ev.Props[ical.PropDateTimeStart] = dateProp(ical.PropDateTimeStart, dtstart)
		ev.Props[ical.PropDateTimeEnd] = dateProp(ical.PropDateTimeEnd, effEnd)
	}
	return ev, dtstart, effEnd, zeroLen
}

func symRange(rng int) (hasStart bool, start time.Time, hasEnd bool, end time.Time) {
	if rng != 2 {
		hasStart = true
		start = vrt.Time("start")
		vrt.Assume(!start.IsZero())
	}
	if rng != 1 {
		hasEnd = true
		end = vrt.Time("end")
		vrt.Assume(!end.IsZero())
	}
	if rng == 0 {
		vrt.Assume(start.Before(end))
	}
	return
}

// VerifH_C06_Overlap: time-range on a VEVENT comp-filter through the public
// Match. Symbolic: all instants (any second of years 1..9999, every relative
// order including all equalities), duration; case-split: how the event states
// its end (6 ways) x range form (both bounds / start only / end only).
func VerifH_C06_Overlap() {
	form := vrt.Choose("endform", 6)
	rng := vrt.Choose("rangeform", 3)
	hasStart, start, hasEnd, end := symRange(rng)
	ev, dtstart, effEnd, zeroLen := symEvent(form)
	cal := &ical.Calendar{Component: &ical.Component{Name: ical.CompCalendar, Props: ical.Props{}, Children: []*ical.Component{ev}}}
	filter := CompFilter{Name: ical.CompCalendar, Comps: []CompFilter{{Name: ical.CompEvent, Start: start, End: end}}}
	got, err := Match(filter, &CalendarObject{Path: "/c/e.ics", Data: cal})
	want := refEventOverlap(hasStart, start, hasEnd, end, dtstart, effEnd, zeroLen)
	vrt.Assert(err == nil, "time-range match must not fail on a well-formed event")
	if err == nil {
		vrt.Assert(got == want, "VEVENT time-range overlap differs from RFC 4791 9.9")
	}
	vrt.Reach("overlap")
}

// VerifH_C06_PropRange: time-range inside a prop-filter. The oracle demands
// a match for a value strictly inside (start, end) and no match for a value
// before start or after end; the two boundary instants are left open.
func VerifH_C06_PropRange() {
	rng := vrt.Choose("rangeform", 3)
	hasStart, start, hasEnd, end := symRange(rng)
	v := vrt.Time("value")
	vrt.Assume(!v.IsZero())
	present := vrt.Bool("present")
	ev := &ical.Component{Name: ical.CompEvent, Props: ical.Props{}}
	if present {
		ev.Props[ical.PropCompleted] = dtProp(ical.PropCompleted, v)
	}
	cal := &ical.Calendar{Component: &ical.Component{Name: ical.CompCalendar, Props: ical.Props{}, Children: []*ical.Component{ev}}}
	filter := CompFilter{Name: ical.CompCalendar, Comps: []CompFilter{{Name: ical.CompEvent,
		Props: []PropFilter{{Name: ical.PropCompleted, Start: start, End: end}}}}}
	got, err := Match(filter, &CalendarObject{Path: "/c/e.ics", Data: cal})
	vrt.Assert(err == nil, "prop time-range match must not fail on a well-formed value")
	if err != nil {
		return
	}
	if !present {
		vrt.Assert(!got, "prop-filter with time-range on an absent property must not match")
		vrt.Reach("proprange/absent")
		return
	}
	// RFC 4791 9.9: "start" is the inclusive start, "end" the non-inclusive
	// end of the time range: the value matches iff start <= value < end
	inside := (!hasStart || !v.Before(start)) && (!hasEnd || v.Before(end))
	vrt.Assert(got == inside, "property value matches iff it lies in [start, end)")
	vrt.Reach("proprange/present")
}

// ---------------------------------------------------------------------------
// reference evaluator for RFC 4791 9.7.1 - 9.7.5 (no time ranges here)

func refText(tm *TextMatch, value string) bool {
	return strings.Contains(value, tm.Text) != tm.NegateCondition
}

func refParamFilter(f ParamFilter, p *ical.Prop) bool {
	vals := p.Params[strings.ToUpper(f.Name)]
	defined := len(vals) > 0 && vals[0] != ""
	if f.IsNotDefined {
		return !defined
	}
	if !defined {
		return false
	}
	if f.TextMatch != nil {
		return refText(f.TextMatch, vals[0])
	}
	return true
}

func refPropFilter(f PropFilter, c *ical.Component) bool {
	props := c.Props[strings.ToUpper(f.Name)]
	if f.IsNotDefined {
		return len(props) == 0
	}
	if len(props) == 0 {
		return false
	}
	p := &props[0]
	if f.TextMatch != nil && !refText(f.TextMatch, p.Value) {
		return false
	}
	for _, pf := range f.ParamFilter {
		if !refParamFilter(pf, p) {
			return false
		}
	}
	return true
}

// refCompFilter: does the filter hold in the scope of parent (i.e. among
// parent's children)?
func refCompFilter(f CompFilter, parent *ical.Component) bool {
	exists := false
	satisfied := false
	for _, ch := range parent.Children {
		if ch.Name != f.Name {
			continue
		}
		exists = true
		if refCompBody(f, ch) {
			satisfied = true
		}
	}
	if f.IsNotDefined {
		return !exists
	}
	return satisfied
}

func refCompBody(f CompFilter, c *ical.Component) bool {
	for _, pf := range f.Props {
		if !refPropFilter(pf, c) {
			return false
		}
	}
	for _, cf := range f.Comps {
		if !refCompFilter(cf, c) {
			return false
		}
	}
	return true
}

func refMatchRoot(f CompFilter, root *ical.Component) bool {
	if root.Name != f.Name {
		return f.IsNotDefined
	}
	if f.IsNotDefined {
		return false
	}
	return refCompBody(f, root)
}

var c06PropNames = []string{ical.PropSummary, ical.PropDescription, "X-ABSENT"}
var c06ParamNames = []string{"LANGUAGE", "X-ABSENT-PARAM"}

func symTextMatchC06() *TextMatch {
	if vrt.Choose("hastext", 2) == 0 {
		return nil
	}
	return &TextMatch{Text: vrt.Str("text"), NegateCondition: vrt.Bool("negate")}
}

func symPropFilter(withParam bool) PropFilter {
	pf := PropFilter{Name: c06PropNames[vrt.Choose("pfname", len(c06PropNames))], IsNotDefined: vrt.Bool("pf-isnotdefined")}
	pf.TextMatch = symTextMatchC06()
	if withParam && vrt.Choose("hasparamfilter", 2) == 1 {
		pf.ParamFilter = []ParamFilter{{Name: c06ParamNames[vrt.Choose("paramname", len(c06ParamNames))],
			IsNotDefined: vrt.Bool("param-isnotdefined"), TextMatch: symTextMatchC06()}}
	}
	return pf
}

// symComponent: a component with an opaque name, SUMMARY and DESCRIPTION of
// symbolic presence and opaque values, SUMMARY optionally with a LANGUAGE
// parameter of opaque value.
func symComponent(tag string) *ical.Component {
	c := &ical.Component{Name: vrt.Str(tag + "-name"), Props: ical.Props{}}
	if vrt.Bool(tag + "-hasSummary") {
		p := ical.Prop{Name: ical.PropSummary, Params: ical.Params{}, Value: vrt.Str(tag + "-summary")}
		if vrt.Bool(tag + "-hasLang") {
			lang := vrt.Str(tag + "-lang")
			vrt.Assume(lang != "")
			p.Params["LANGUAGE"] = []string{lang}
		}
		c.Props[ical.PropSummary] = []ical.Prop{p}
	}
	if vrt.Bool(tag + "-hasDescription") {
		c.Props[ical.PropDescription] = []ical.Prop{{Name: ical.PropDescription, Params: ical.Params{}, Value: vrt.Str(tag + "-description")}}
	}
	return c
}

// VerifH_C06_PropFilter: one comp-filter below VCALENDAR carrying one
// prop-filter (optional text-match, optional param-filter with optional
// text-match); object with one child component of arbitrary name.
func VerifH_C06_PropFilter() {
	child := symComponent("c0")
	root := &ical.Component{Name: ical.CompCalendar, Props: ical.Props{}, Children: []*ical.Component{child}}
	cf := CompFilter{Name: vrt.Str("cf-name"), IsNotDefined: vrt.Bool("cf-isnotdefined")}
	if !cf.IsNotDefined {
		cf.Props = []PropFilter{symPropFilter(true)}
	}
	filter := CompFilter{Name: ical.CompCalendar, Comps: []CompFilter{cf}}
	got, err := Match(filter, &CalendarObject{Path: "/c/o.ics", Data: &ical.Calendar{Component: root}})
	vrt.Assert(err == nil, "Match must not fail without time ranges")
	if err == nil {
		vrt.Assert(got == refMatchRoot(filter, root), "Match differs from RFC 4791 9.7 reference (prop/param filters)")
	}
	vrt.Reach("propfilter")
}

// VerifH_C06_Tree: 0..maxcf comp-filters below the root, each with
// is-not-defined, 0..1 presence-only prop-filters and (depth 2) 0..1 nested
// comp-filters; object with 0..maxch children of arbitrary names, the first
// child optionally with one grandchild.
func VerifH_C06_Tree() {
	maxCF := vrt.Param("maxcf", 2)
	maxCh := vrt.Param("maxch", 2)
	nested := vrt.Param("nested", 1)
	root := &ical.Component{Name: vrt.Str("root-name"), Props: ical.Props{}}
	nch := vrt.Choose("nchildren", maxCh+1)
	for i := 0; i < nch; i++ {
		ch := &ical.Component{Name: vrt.Str("child-name"), Props: ical.Props{}}
		if vrt.Bool("child-hasSummary") {
			ch.Props[ical.PropSummary] = []ical.Prop{{Name: ical.PropSummary, Params: ical.Params{}, Value: "s"}}
		}
		if i == 0 && nested == 1 && vrt.Choose("hasgrandchild", 2) == 1 {
			ch.Children = []*ical.Component{{Name: vrt.Str("grandchild-name"), Props: ical.Props{}}}
		}
		root.Children = append(root.Children, ch)
	}
	filter := CompFilter{Name: vrt.Str("rootfilter-name"), IsNotDefined: vrt.Bool("rootfilter-isnotdefined")}
	if !filter.IsNotDefined {
		ncf := vrt.Choose("ncompfilters", maxCF+1)
		for i := 0; i < ncf; i++ {
			cf := CompFilter{Name: vrt.Str("cf-name"), IsNotDefined: vrt.Bool("cf-isnotdefined")}
			if !cf.IsNotDefined {
				if vrt.Choose("cf-hasprop", 2) == 1 {
					cf.Props = []PropFilter{{Name: ical.PropSummary, IsNotDefined: vrt.Bool("pf-isnotdefined")}}
				}
				if nested == 1 && vrt.Choose("cf-hasnested", 2) == 1 {
					cf.Comps = []CompFilter{{Name: vrt.Str("nested-name"), IsNotDefined: vrt.Bool("nested-isnotdefined")}}
				}
			}
			filter.Comps = append(filter.Comps, cf)
		}
	}
	got, err := Match(filter, &CalendarObject{Path: "/c/o.ics", Data: &ical.Calendar{Component: root}})
	vrt.Assert(err == nil, "Match must not fail without time ranges")
	if err == nil {
		vrt.Assert(got == refMatchRoot(filter, root), "Match differs from RFC 4791 9.7 reference (component tree)")
	}
	vrt.Reach("tree")
}

// VerifH_C06_Filter: Filter returns exactly the matching objects, in input
// order, the very same objects, and everything for a nil query.
func VerifH_C06_Filter() {
	maxObj := vrt.Param("maxobj", 3)
	n := vrt.Choose("nobj", maxObj+1)
	ind := vrt.Bool("isnotdefined")
	objs := make([]CalendarObject, n)
	has := make([]bool, n)
	datas := make([]*ical.Calendar, n)
	for i := 0; i < n; i++ {
		has[i] = vrt.Bool("hasEvent")
		root := &ical.Component{Name: ical.CompCalendar, Props: ical.Props{}}
		if has[i] {
			root.Children = []*ical.Component{{Name: ical.CompEvent, Props: ical.Props{}}}
		} else {
			root.Children = []*ical.Component{{Name: ical.CompToDo, Props: ical.Props{}}}
		}
		datas[i] = &ical.Calendar{Component: root}
		objs[i] = CalendarObject{Path: "/c/" + string(rune('a'+i)), ETag: "t" + string(rune('a'+i)), ContentLength: int64(i + 1), Data: datas[i]}
	}
	q := &CalendarQuery{CompFilter: CompFilter{Name: ical.CompCalendar, Comps: []CompFilter{{Name: ical.CompEvent, IsNotDefined: ind}}}}
	out, err := Filter(q, objs)
	vrt.Assert(err == nil, "Filter must not fail")
	if err != nil {
		return
	}
	k := 0
	for i := 0; i < n; i++ {
		if has[i] != ind {
			ok := k < len(out) && out[k].Path == objs[i].Path && out[k].ETag == objs[i].ETag && out[k].ContentLength == objs[i].ContentLength && out[k].Data == datas[i]
			vrt.Assert(ok, "Filter: matching objects in input order, unmodified")
			k++
		}
		vrt.Assert(objs[i].Data == datas[i] && len(datas[i].Children) == 1, "Filter must not modify its input")
	}
	vrt.Assert(k == len(out), "Filter returns only matching objects")
	all, err := Filter(nil, objs)
	vrt.Assert(err == nil && len(all) == n, "Filter(nil) returns every object")
	vrt.Reach("filter")
}
