//go:build verif

package caldav

import (
	"strconv"
	"time"

	"github.com/emersion/go-ical"

	vrt "github.com/emersion/go-webdav/internal/zz_verifrt"
)

// ---- recurrence expansion replaced by its documented contract --------------
//
// Family: DTSTART + k*interval for k < count, interval one day (DAILY) or
// seven days (WEEKLY), UTC. rrule-go's real expansion runs in the native
// replay on the corresponding RRULE text.

var verifRecStart time.Time
var verifRecCount int
var verifRecInterval time.Duration

func verifInstances() []time.Time {
	out := make([]time.Time, verifRecCount)
	for k := 0; k < verifRecCount; k++ {
		out[k] = verifRecStart.Add(time.Duration(k) * verifRecInterval)
	}
	return out
}

// The hooks below are called by the executor in place of
// (*ical.Component).RecurrenceSet and (*rrule.Set).Between/After/Before/All
// (the harness cannot import rrule-go without forcing a go.mod change).
func verifRecurrenceSetHook(comp *ical.Component) bool {
	return len(comp.Props[ical.PropRecurrenceRule]) > 0
}

func verifRecBetween(after, before time.Time, inc bool) []time.Time {
	var out []time.Time
	for _, i := range verifInstances() {
		if inc {
			if !i.Before(after) && !i.After(before) {
				out = append(out, i)
			}
		} else if i.After(after) && i.Before(before) {
			out = append(out, i)
		}
	}
	return out
}

func verifRecAfter(dt time.Time, inc bool) time.Time {
	for _, i := range verifInstances() {
		if i.After(dt) || (inc && i.Equal(dt)) {
			return i
		}
	}
	return time.Time{}
}

func verifRecBefore(dt time.Time, inc bool) time.Time {
	var last time.Time
	for _, i := range verifInstances() {
		if i.Before(dt) || (inc && i.Equal(dt)) {
			last = i
		}
	}
	return last
}

func verifRecAll() []time.Time { return verifInstances() }

// VerifH_C06_Recurring: a recurring VEVENT matches a time range iff some
// instance, taken with the event's duration, overlaps it under the RFC 4791
// 9.9 rules. Symbolic: DTSTART, range bounds, duration; case-split: DAILY /
// WEEKLY, COUNT 1..3, how the event states its end, range form.
func VerifH_C06_Recurring() {
	form := vrt.Choose("endform", 4) // 0 DTEND, 1 DURATION>0, 2 DURATION=0, 3 none (instant)
	rng := vrt.Choose("rangeform", 3)
	hasStart, start, hasEnd, end := symRange(rng)
	weekly := vrt.Choose("weekly", 2) == 1
	count := 1 + vrt.Choose("count", vrt.Param("maxcount", 3))
	ev, dtstart, effEnd, zeroLen := symEvent(form)
	freq := "DAILY"
	verifRecInterval = 24 * time.Hour
	if weekly {
		freq = "WEEKLY"
		verifRecInterval = 7 * 24 * time.Hour
	}
	vrt.Assume(!dtstart.IsZero()) // rrule-go treats a zero DTSTART as unset
	// keep the whole series inside the representable years
	vrt.Assume(dtstart.Before(time.Date(9900, 1, 1, 0, 0, 0, 0, time.UTC)))
	ev.Props[ical.PropRecurrenceRule] = []ical.Prop{{Name: ical.PropRecurrenceRule, Params: ical.Params{}, Value: "FREQ=" + freq + ";COUNT=" + strconv.Itoa(count)}}
	verifRecStart, verifRecCount = dtstart, count
	dur := effEnd.Sub(dtstart)

	cal := &ical.Calendar{Component: &ical.Component{Name: ical.CompCalendar, Props: ical.Props{}, Children: []*ical.Component{ev}}}
	filter := CompFilter{Name: ical.CompCalendar, Comps: []CompFilter{{Name: ical.CompEvent, Start: start, End: end}}}
	got, err := Match(filter, &CalendarObject{Path: "/c/e.ics", Data: cal})

	want := false
	for k := 0; k < count; k++ {
		i := dtstart.Add(time.Duration(k) * verifRecInterval)
		if refEventOverlap(hasStart, start, hasEnd, end, i, i.Add(dur), zeroLen) {
			want = true
		}
	}
	vrt.Assert(err == nil, "time-range match on a recurring event must not fail")
	if err == nil {
		vrt.Assert(got == want, "recurring VEVENT matches iff some instance overlaps the range (RFC 4791 9.9)")
	}
	vrt.Reach("recurring")
}
