//go:build verif

package caldav

import (
	"time"

	vrt "github.com/emersion/go-webdav/internal/zz_verifrt"
)

func verifZone(z int) *time.Location {
	switch z {
	case 1:
		return time.FixedZone("VZ1", 3600)
	case 2:
		return time.FixedZone("VZ2", -18000)
	}
	return time.UTC
}

// VerifH_C16_UTCDateTime: the "date with UTC time" attribute text
// (time-range / expand bounds) depends only on the instant, not on the zone
// of the caller's value, and survives unmarshal(marshal(t)) to the second.
// time.Format/Parse are uninterpreted functions of (layout, instant, zone).
func VerifH_C16_UTCDateTime() {
	z1, z2 := vrt.Choose("zone1", 3), vrt.Choose("zone2", 3)
	t := vrt.TimeIn("t", z1)
	d1 := dateWithUTCTime(t)
	text1, err := d1.MarshalText()
	vrt.Assert(err == nil, "dateWithUTCTime.MarshalText cannot fail")
	d2 := dateWithUTCTime(t.In(verifZone(z2)))
	text2, _ := d2.MarshalText()
	vrt.Assert(string(text1) == string(text2), "UTC date-time text depends only on the instant, not on the caller's zone")
	// reference: what formatting the UTC form of the instant gives
	vrt.Assert(string(text1) == t.UTC().Format(dateWithUTCTimeLayout), "UTC date-time text denotes the instant in UTC")
	var back dateWithUTCTime
	err = back.UnmarshalText(text1)
	vrt.Assert(err == nil && time.Time(back).Equal(t), "UTC date-time round trip to the second")
	vrt.Reach("utcdatetime")
}
