//go:build verif

package caldav

import (
	"context"
	"encoding/xml"
	"net/http"
	"net/url"
	"time"

	"github.com/emersion/go-webdav/internal"
	vrt "github.com/emersion/go-webdav/internal/zz_verifrt"
)

// ---- independent reader of the wire structs (RFC 4791 9.6 - 9.10) --------

func refNegateC08(nc negateCondition) (bool, bool) {
	text, err := nc.MarshalText()
	if err != nil {
		return false, false
	}
	if len(text) == 0 {
		return false, true // absent attribute: default "no"
	}
	var back negateCondition
	if err := back.UnmarshalText(text); err != nil {
		return false, false
	}
	return bool(back), true
}

func checkRangeEq(tr *timeRange, start, end time.Time, where string) {
	if start.IsZero() && end.IsZero() {
		vrt.Assert(tr == nil || (time.Time(tr.Start).IsZero() && time.Time(tr.End).IsZero()), where+": no time-range expected")
		return
	}
	vrt.Assert(tr != nil, where+": time-range element expected")
	if tr == nil {
		return
	}
	vrt.Assert(time.Time(tr.Start).Equal(start), where+": time-range start instant")
	vrt.Assert(time.Time(tr.End).Equal(end), where+": time-range end instant")
	checkUTCText(tr.Start, start, where+": time-range start")
}

// checkUTCText: the attribute text is the instant in UTC (time.Format is an
// uninterpreted function of layout, instant and zone in the symbolic run).
func checkUTCText(d dateWithUTCTime, want time.Time, where string) {
	if want.IsZero() {
		return
	}
	text, err := d.MarshalText()
	vrt.Assert(err == nil && string(text) == want.UTC().Format(dateWithUTCTimeLayout), where+" is sent as the UTC form of the caller's instant")
}

func checkTextEq(el *textMatch, tm *TextMatch, where string) {
	vrt.Assert((el != nil) == (tm != nil), where+": text-match presence")
	if el == nil || tm == nil {
		return
	}
	neg, ok := refNegateC08(el.NegateCondition)
	vrt.Assert(ok, where+": negate-condition attribute readable")
	vrt.Assert(el.Text == tm.Text, where+": text-match text")
	vrt.Assert(neg == tm.NegateCondition, where+": negate-condition")
}

func checkParamEq(el *paramFilter, f *ParamFilter, where string) {
	vrt.Assert(el.Name == f.Name, where+": param-filter name")
	vrt.Assert((el.IsNotDefined != nil) == f.IsNotDefined, where+": param-filter is-not-defined")
	checkTextEq(el.TextMatch, f.TextMatch, where+" param")
}

func checkPropEq(el *propFilter, f *PropFilter, where string) {
	vrt.Assert(el.Name == f.Name, where+": prop-filter name")
	vrt.Assert((el.IsNotDefined != nil) == f.IsNotDefined, where+": prop-filter is-not-defined")
	checkRangeEq(el.TimeRange, f.Start, f.End, where+" prop-filter")
	checkTextEq(el.TextMatch, f.TextMatch, where+" prop")
	vrt.Assert(len(el.ParamFilter) == len(f.ParamFilter), where+": number of param-filters")
	if len(el.ParamFilter) == len(f.ParamFilter) {
		for i := range f.ParamFilter {
			checkParamEq(&el.ParamFilter[i], &f.ParamFilter[i], where)
		}
	}
}

func checkCompEq(el *compFilter, f *CompFilter, where string) {
	vrt.Assert(el.Name == f.Name, where+": comp-filter name")
	vrt.Assert((el.IsNotDefined != nil) == f.IsNotDefined, where+": comp-filter is-not-defined")
	checkRangeEq(el.TimeRange, f.Start, f.End, where+" comp-filter")
	vrt.Assert(len(el.PropFilters) == len(f.Props), where+": number of prop-filters")
	if len(el.PropFilters) == len(f.Props) {
		for i := range f.Props {
			checkPropEq(&el.PropFilters[i], &f.Props[i], where)
		}
	}
	vrt.Assert(len(el.CompFilters) == len(f.Comps), where+": number of nested comp-filters")
	if len(el.CompFilters) == len(f.Comps) {
		for i := range f.Comps {
			checkCompEq(&el.CompFilters[i], &f.Comps[i], where)
		}
	}
}

func checkCompReqEq(el *comp, r *CalendarCompRequest, where string) {
	vrt.Assert(el != nil, where+": comp element present")
	if el == nil {
		return
	}
	vrt.Assert(el.Name == r.Name, where+": comp name")
	vrt.Assert((el.Allprop != nil) == r.AllProps, where+": allprop")
	vrt.Assert((el.Allcomp != nil) == r.AllComps, where+": allcomp")
	vrt.Assert(len(el.Prop) == len(r.Props), where+": number of requested properties")
	if len(el.Prop) == len(r.Props) {
		for i := range r.Props {
			vrt.Assert(el.Prop[i].Name == r.Props[i], where+": requested property name")
		}
	}
	vrt.Assert(len(el.Comp) == len(r.Comps), where+": number of nested comp requests")
	if len(el.Comp) == len(r.Comps) {
		for i := range r.Comps {
			checkCompReqEq(&el.Comp[i], &r.Comps[i], where)
		}
	}
}

func checkExpandEq(el *expand, e *CalendarExpandRequest, where string) {
	vrt.Assert((el != nil) == (e != nil), where+": expand presence")
	if el != nil && e != nil {
		vrt.Assert(time.Time(el.Start).Equal(e.Start) && time.Time(el.End).Equal(e.End), where+": expand range instants")
		checkUTCText(el.Start, e.Start, where+": expand start")
	}
}

// ---- symbolic builders ------------------------------------------------------

func symRangeC08(tag string) (time.Time, time.Time) {
	switch vrt.Choose(tag+"-range", 3) {
	case 1:
		return vrt.TimeIn(tag+"-start", vrt.Choose(tag+"-zone", 3)), vrt.TimeIn(tag+"-end", 0)
	case 2:
		return vrt.TimeIn(tag+"-start", 0), time.Time{}
	}
	return time.Time{}, time.Time{}
}

// symMatchText: match text is either an opaque string of any length or one
// or two arbitrary printable ASCII bytes, blanks and XML metacharacters
// included (byte-level code such as trimming can only act on the latter).
var verifTextForm = -1

func symMatchText(name string) string {
	// one choice per path for all texts: all opaque or all bytes
	if verifTextForm < 0 {
		verifTextForm = vrt.Choose("text-form", 2)
	}
	if verifTextForm == 0 {
		return vrt.Str(name)
	}
	return vrt.StrNIn(name+"-bytes", 1+vrt.Choose(name+"-len", 2), ' ', '~')
}

func symTextC08() *TextMatch {
	if vrt.Choose("hastext", 2) == 0 {
		return nil
	}
	return &TextMatch{Text: symMatchText("text"), NegateCondition: vrt.Bool("negate")}
}

func symPropFilterC08() PropFilter {
	pf := PropFilter{Name: vrt.Str("pfname")}
	if vrt.Bool("pf-isnotdefined") {
		pf.IsNotDefined = true
		return pf
	}
	switch vrt.Choose("pf-content", 3) {
	case 1:
		pf.Start, pf.End = symRangeC08("pf")
	case 2:
		pf.TextMatch = symTextC08()
	}
	if vrt.Choose("hasparam", 2) == 1 {
		par := ParamFilter{Name: vrt.Str("paramname")}
		if vrt.Bool("param-isnotdefined") {
			par.IsNotDefined = true
		} else {
			par.TextMatch = symTextC08()
		}
		pf.ParamFilter = append(pf.ParamFilter, par)
	}
	return pf
}

func symCompFilterC08(depth int) CompFilter {
	cf := CompFilter{Name: vrt.Str("cfname")}
	if depth > 0 && vrt.Bool("cf-isnotdefined") {
		cf.IsNotDefined = true
		return cf
	}
	if depth > 0 {
		cf.Start, cf.End = symRangeC08("cf")
		if vrt.Choose("hasprop", 2) == 1 {
			cf.Props = append(cf.Props, symPropFilterC08())
		}
	}
	if depth < vrt.Param("maxdepth", 1) && vrt.Choose("hasnested", 2) == 1 {
		cf.Comps = append(cf.Comps, symCompFilterC08(depth+1))
	}
	return cf
}

func symCompRequest(depth int) CalendarCompRequest {
	r := CalendarCompRequest{Name: vrt.Str("compname")}
	if vrt.Bool("allprops") {
		r.AllProps = true
	} else {
		n := vrt.Choose("nprops", 3)
		for i := 0; i < n; i++ {
			r.Props = append(r.Props, vrt.Str("propname"))
		}
	}
	if vrt.Bool("allcomps") {
		r.AllComps = true
	} else if depth < 1 && vrt.Choose("hassub", 2) == 1 {
		r.Comps = append(r.Comps, symCompRequest(depth+1))
	}
	if depth == 0 && vrt.Choose("hasexpand", 2) == 1 {
		r.Expand = &CalendarExpandRequest{Start: vrt.TimeIn("expand-start", vrt.Choose("expand-zone", 3)), End: vrt.TimeIn("expand-end", 0)}
	}
	return r
}

func newVerifClient(hc *internal.VerifHTTPClient) *Client {
	return &Client{ic: internal.VerifNewClient(hc, "/dav/")}
}

// VerifH_C08_ClientQuery: every conformant CalendarQuery is sent as the
// calendar-query it denotes (filter tree, flags, texts, instants, selection).
func VerifH_C08_ClientQuery() {
	verifTextForm = -1
	internal.VerifResetWire()
	internal.VerifCopyHook = verifCopy
	q := &CalendarQuery{CompFilter: symCompFilterC08(0)}
	withReq := vrt.Choose("with-comp-request", 2) == 1
	if withReq {
		q.CompRequest = symCompRequest(0)
	}
	hc := &internal.VerifHTTPClient{}
	c := newVerifClient(hc)
	_, err := c.QueryCalendar(context.Background(), "/dav/cal/", q)
	vrt.Assert(err == nil, "a conformant calendar-query is always expressible")
	if err != nil {
		return
	}
	var doc *calendarQuery
	var hdr http.Header
	if vrt.Symbolic() {
		doc, _ = internal.VerifSentBody.(*calendarQuery)
		hdr = internal.VerifSentHeader
		vrt.Assert(internal.VerifSentMethod == "REPORT", "calendar-query is sent as REPORT")
	} else {
		doc = &calendarQuery{}
		if err := xml.Unmarshal(hc.Bodies[0], doc); err != nil {
			vrt.Fail("calendar-query document not readable: " + err.Error())
			return
		}
		hdr = hc.Requests[0].Header
		vrt.Assert(hc.Requests[0].Method == "REPORT", "calendar-query is sent as REPORT")
	}
	vrt.Assert(hdr.Get("Depth") == "1", "calendar-query carries Depth: 1")
	checkCompEq(&doc.Filter.CompFilter, &q.CompFilter, "client")
	var cd calendarDataReq
	found := verifPropGet(doc.Prop, &cd)
	vrt.Assert(found, "client: calendar-data element present in DAV:prop")
	if found {
		checkCompReqEq(cd.Comp, &q.CompRequest, "client")
		checkExpandEq(cd.Expand, q.CompRequest.Expand, "client")
	}
	vrt.Reach("client-query")
}

// VerifH_C08_ClientMultiGet: hrefs in order plus the selection.
func VerifH_C08_ClientMultiGet() {
	internal.VerifResetWire()
	internal.VerifCopyHook = verifCopy
	mg := &CalendarMultiGet{CompRequest: symCompRequest(0)}
	n := vrt.Choose("nhrefs", vrt.Param("maxhrefs", 3)+1)
	for i := 0; i < n; i++ {
		// arbitrary bytes (every value) so that any escaping/parsing on the
		// way is executed from the real net/url code
		mg.Paths = append(mg.Paths, "/dav/cal/"+vrt.StrN("name", 1+vrt.Choose("name-len", vrt.Param("namelen", 1))))
	}
	hc := &internal.VerifHTTPClient{}
	c := newVerifClient(hc)
	_, err := c.MultiGetCalendar(context.Background(), "/dav/cal/", mg)
	vrt.Assert(err == nil, "multiget is always expressible")
	if err != nil {
		return
	}
	var doc *calendarMultiget
	if vrt.Symbolic() {
		doc, _ = internal.VerifSentBody.(*calendarMultiget)
	} else {
		doc = &calendarMultiget{}
		if err := xml.Unmarshal(hc.Bodies[0], doc); err != nil {
			vrt.Fail("multiget document not readable: " + err.Error())
			return
		}
	}
	if n == 0 {
		vrt.Assert(len(doc.Hrefs) == 1 && doc.Hrefs[0].Path == "/dav/cal/", "multiget without paths addresses the collection itself")
	} else {
		vrt.Assert(len(doc.Hrefs) == n, "number of hrefs")
		if len(doc.Hrefs) == n {
			for i := range mg.Paths {
				vrt.Assert(doc.Hrefs[i].Path == mg.Paths[i], "hrefs in request order")
			}
		}
	}
	var cd calendarDataReq
	found := verifPropGet(doc.Prop, &cd)
	vrt.Assert(found, "client multiget: calendar-data element present")
	if found {
		checkCompReqEq(cd.Comp, &mg.CompRequest, "client multiget")
		checkExpandEq(cd.Expand, mg.CompRequest.Expand, "client multiget")
	}
	vrt.Reach("client-multiget")
}

// ---- wire -> backend -------------------------------------------------------

func symWireNegateC08() (negateCondition, bool, bool) {
	if vrt.Choose("negate-present", 2) == 0 {
		return false, true, false
	}
	s := vrt.Str("negate-condition")
	if verifTextForm < 0 {
		verifTextForm = vrt.Choose("text-form", 2)
	}
	if verifTextForm == 1 {
		s = vrt.StrN("negate-condition-bytes", 3)
	}
	var nc negateCondition
	err := nc.UnmarshalText([]byte(s))
	valid := s == "yes" || s == "no"
	vrt.Assert((err == nil) == valid, "negate-condition attribute: exactly yes and no are accepted")
	return nc, err == nil, s == "yes"
}

type wireWant struct {
	refused bool
}

func symWireText(w *wireWant) *textMatch {
	if vrt.Choose("hastext", 2) == 0 {
		return nil
	}
	nc, ok, _ := symWireNegateC08()
	if !ok {
		w.refused = true
	}
	return &textMatch{Text: symMatchText("text"), NegateCondition: nc}
}

func symWireRange(tag string) *timeRange {
	switch vrt.Choose(tag+"-range", 3) {
	case 1:
		return &timeRange{Start: dateWithUTCTime(vrt.Time(tag + "-start")), End: dateWithUTCTime(vrt.Time(tag + "-end"))}
	case 2:
		return &timeRange{End: dateWithUTCTime(vrt.Time(tag + "-end"))}
	}
	return nil
}

func symWirePropFilter(w *wireWant) propFilter {
	el := propFilter{Name: vrt.Str("pfname")}
	if vrt.Bool("pf-isnotdefined") {
		el.IsNotDefined = &struct{}{}
		return el
	}
	switch vrt.Choose("pf-content", 3) {
	case 1:
		el.TimeRange = symWireRange("pf")
	case 2:
		el.TextMatch = symWireText(w)
	}
	if vrt.Choose("hasparam", 2) == 1 {
		par := paramFilter{Name: vrt.Str("paramname")}
		if vrt.Bool("param-isnotdefined") {
			par.IsNotDefined = &struct{}{}
		} else {
			par.TextMatch = symWireText(w)
		}
		el.ParamFilter = append(el.ParamFilter, par)
	}
	return el
}

func symWireCompFilter(depth int, w *wireWant) compFilter {
	el := compFilter{Name: vrt.Str("cfname")}
	if depth > 0 && vrt.Bool("cf-isnotdefined") {
		el.IsNotDefined = &struct{}{}
		return el
	}
	if depth > 0 {
		el.TimeRange = symWireRange("cf")
		if vrt.Choose("hasprop", 2) == 1 {
			el.PropFilters = append(el.PropFilters, symWirePropFilter(w))
		}
	}
	if depth < vrt.Param("maxdepth", 1) && vrt.Choose("hasnested", 2) == 1 {
		el.CompFilters = append(el.CompFilters, symWireCompFilter(depth+1, w))
	}
	return el
}

func symWireComp(depth int) comp {
	el := comp{Name: vrt.Str("compname")}
	if vrt.Bool("allprop") {
		el.Allprop = &struct{}{}
	} else {
		n := vrt.Choose("nprops", 3)
		for i := 0; i < n; i++ {
			el.Prop = append(el.Prop, prop{Name: vrt.Str("propname")})
		}
	}
	if vrt.Bool("allcomp") {
		el.Allcomp = &struct{}{}
	} else if depth < 1 && vrt.Choose("hassub", 2) == 1 {
		el.Comp = append(el.Comp, symWireComp(depth+1))
	}
	return el
}

func symWireCalendarData() (*calendarDataReq, *internal.Prop) {
	cd := &calendarDataReq{}
	if vrt.Choose("hascomp", 2) == 1 {
		c := symWireComp(0)
		cd.Comp = &c
	}
	if vrt.Choose("hasexpand", 2) == 1 {
		cd.Expand = &expand{Start: dateWithUTCTime(vrt.Time("expand-start")), End: dateWithUTCTime(vrt.Time("expand-end"))}
	}
	enc, _ := internal.EncodeProp(cd)
	if vrt.Symbolic() {
		return cd, enc
	}
	p := &internal.Prop{}
	if err := internal.VerifXMLRoundTrip(enc, p); err != nil {
		vrt.Fail("prop round trip: " + err.Error())
	}
	return cd, p
}

func checkBackendCompReq(cd *calendarDataReq, got *CalendarCompRequest, where string) {
	vrt.Assert(got != nil, where+": selection reaches the backend")
	if got == nil {
		return
	}
	if cd.Comp == nil {
		vrt.Assert(got.AllProps && got.AllComps, where+": calendar-data without comp means everything")
	} else {
		checkCompReqEq(cd.Comp, got, where)
	}
	checkExpandEq(cd.Expand, got.Expand, where)
}

// VerifH_C08_ServerQuery: a conformant calendar-query wire struct reaches the
// backend as the query it denotes.
func VerifH_C08_ServerQuery() {
	verifTextForm = -1
	internal.VerifResetWire()
	internal.VerifCopyHook = verifCopy
	w := &wireWant{}
	var doc calendarQuery
	doc.Filter.CompFilter = symWireCompFilter(0, w)
	if w.refused {
		vrt.Reach("server-query/refused-by-decoder")
		return
	}
	cd, p := symWireCalendarData()
	doc.Prop = p
	be := &verifBackend{principal: "/dav/u/", homeSet: "/dav/u/cal/"}
	h := &Handler{Backend: be, Prefix: "/dav"}
	rec := newVerifRecorder()
	r := &http.Request{Method: "REPORT", URL: &url.URL{Path: "/dav/u/cal/c/"}, Header: http.Header{}}
	err := h.handleQuery(r, rec, &doc)
	vrt.Assert(err == nil, "a conformant calendar-query is not refused")
	if err != nil {
		return
	}
	q := be.query
	vrt.Assert(q != nil && len(be.paths) == 1 && be.paths[0] == "/dav/u/cal/c/", "query reaches the backend once, addressed to the request path")
	if q == nil {
		return
	}
	checkCompEq(&doc.Filter.CompFilter, &q.CompFilter, "backend")
	checkBackendCompReq(cd, &q.CompRequest, "backend query")
	vrt.Reach("server-query/delivered")
}

// VerifH_C08_ServerMultiGet: hrefs in order, selection for every href.
func VerifH_C08_ServerMultiGet() {
	internal.VerifResetWire()
	internal.VerifCopyHook = verifCopy
	var doc calendarMultiget
	n := vrt.Choose("nhrefs", vrt.Param("maxhrefs", 2)+1)
	for i := 0; i < n; i++ {
		doc.Hrefs = append(doc.Hrefs, internal.Href{Path: "/dav/u/cal/c/" + vrt.Str("name")})
	}
	cd, p := symWireCalendarData()
	doc.Prop = p
	be := &verifBackend{principal: "/dav/u/", homeSet: "/dav/u/cal/"}
	h := &Handler{Backend: be, Prefix: "/dav"}
	rec := newVerifRecorder()
	err := h.handleMultiget(context.Background(), rec, &doc)
	vrt.Assert(err == nil, "a conformant calendar-multiget is not refused")
	if err != nil {
		return
	}
	vrt.Assert(len(be.paths) == n, "one backend lookup per href")
	if len(be.paths) == n {
		for i := 0; i < n; i++ {
			vrt.Assert(be.calls[i] == "GetCalendarObject" && be.paths[i] == doc.Hrefs[i].Path, "hrefs reach the backend in request order")
			checkBackendCompReq(cd, be.compReqs[i], "backend multiget")
		}
	}
	vrt.Reach("server-multiget")
}
