//go:build verif

package caldav

import (
	"net/http"

	"github.com/emersion/go-webdav/internal"
	vrt "github.com/emersion/go-webdav/internal/zz_verifrt"
)

// VerifH_C16_HeaderTag: the entity tag of a GET or PUT answer is decoded
// from the ETag header: for every header text of 1..textlen arbitrary bytes
// the decoder either refuses or the text is a double-quoted string and the
// tag is what the XML-side decoder (internal.ETag) reads from the same text;
// every tag written by internal.ETag.String is read back unchanged.
func VerifH_C16_HeaderTag() {
	n := 1 + vrt.Choose("len", vrt.Param("textlen", 3))
	text := vrt.StrN("text", n)
	var obj CalendarObject
	err := populateCalendarObject(&obj, http.Header{"Etag": []string{text}})
	var ref internal.ETag
	rerr := ref.UnmarshalText([]byte(text))
	quoted := n >= 2 && text[0] == '"' && text[n-1] == '"'
	if err == nil {
		vrt.Assert(quoted, "ETag header: only a double-quoted string is accepted as an entity tag")
		vrt.Assert(rerr == nil && obj.ETag == string(ref), "ETag header: the tag is the one the XML-side decoder reads from the same text")
	} else {
		vrt.Assert(obj.ETag == "", "ETag header: a refused text leaves no tag behind")
		vrt.Assert(rerr != nil, "ETag header: a text the XML-side decoder accepts is accepted in the header as well")
	}
	vrt.Reach("header-tag")
}
