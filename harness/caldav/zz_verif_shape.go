//go:build verif

package caldav

import (
	"encoding"

	"github.com/emersion/go-webdav/internal"
	vrt "github.com/emersion/go-webdav/internal/zz_verifrt"
)

var verifNS = map[string]string{"C": "urn:ietf:params:xml:ns:caldav", "D": "DAV:"}

// RFC 4791 section 9: CALDAV:calendar-query
//
//	<!ELEMENT calendar-query ((DAV:allprop | DAV:propname | DAV:prop)?, filter, timezone?)>
//	<!ELEMENT filter (comp-filter)>
//	<!ELEMENT comp-filter (is-not-defined | (time-range?, prop-filter*, comp-filter*))>  name
//	<!ELEMENT prop-filter (is-not-defined | ((time-range | text-match)?, param-filter*))> name
//	<!ELEMENT param-filter (is-not-defined | text-match?)>                               name
//	<!ELEMENT text-match (#PCDATA)>   collation, negate-condition
//	<!ELEMENT time-range EMPTY>       start, end
var verifQuerySchema = []internal.VerifShapeSpec{
	{Path: "C:calendar-query", Items: "D:prop? D:allprop? D:propname? C:filter", Optional: "C:timezone?", Order: "D:prop<C:filter D:allprop<C:filter D:propname<C:filter C:filter<C:timezone"},
	{Path: "C:calendar-query/D:prop", Items: "#any*"},
	{Path: "C:calendar-query/C:filter", Items: "C:comp-filter"},
	{Path: "C:calendar-query/C:filter/C:comp-filter", Items: "@name C:is-not-defined? C:time-range? C:prop-filter* C:comp-filter*^", Order: "C:time-range<C:prop-filter<C:comp-filter"},
	{Path: "C:calendar-query/C:filter/C:comp-filter/C:time-range", Items: "@start? @end?"},
	{Path: "C:calendar-query/C:filter/C:comp-filter/C:prop-filter", Items: "@name C:is-not-defined? C:time-range? C:text-match? C:param-filter*", Order: "C:time-range<C:param-filter C:text-match<C:param-filter"},
	{Path: "C:calendar-query/C:filter/C:comp-filter/C:prop-filter/C:time-range", Items: "@start? @end?"},
	{Path: "C:calendar-query/C:filter/C:comp-filter/C:prop-filter/C:text-match", Items: "#text @collation? @negate-condition?"},
	{Path: "C:calendar-query/C:filter/C:comp-filter/C:prop-filter/C:param-filter", Items: "@name C:is-not-defined? C:text-match?"},
	{Path: "C:calendar-query/C:filter/C:comp-filter/C:prop-filter/C:param-filter/C:text-match", Items: "#text @collation? @negate-condition?"},
}

// <!ELEMENT calendar-multiget ((DAV:allprop | DAV:propname | DAV:prop)?, DAV:href+)>
var verifMultigetSchema = []internal.VerifShapeSpec{
	{Path: "C:calendar-multiget", Items: "D:prop? D:allprop? D:propname? D:href*", Order: "D:prop<D:href D:allprop<D:href D:propname<D:href"},
	{Path: "C:calendar-multiget/D:prop", Items: "#any*"},
}

// <!ELEMENT calendar-data ((comp?, (expand | limit-recurrence-set)?, limit-freebusy-set?) | #PCDATA)?>
// <!ELEMENT comp ((allprop | prop*), (allcomp | comp*))>   name
// <!ELEMENT prop EMPTY>                                    name, novalue
// <!ELEMENT expand EMPTY>                                  start, end (both required)
var verifCalendarDataSchema = []internal.VerifShapeSpec{
	{Path: "C:calendar-data", Items: "C:comp? C:expand?", Optional: "C:limit-recurrence-set? C:limit-freebusy-set? @content-type? @version?", Order: "C:comp<C:expand C:comp<C:limit-recurrence-set C:expand<C:limit-freebusy-set C:limit-recurrence-set<C:limit-freebusy-set"},
	{Path: "C:calendar-data/C:limit-recurrence-set", Items: "@start @end", MayMiss: true},
	{Path: "C:calendar-data/C:limit-freebusy-set", Items: "@start @end", MayMiss: true},
	{Path: "C:calendar-data/C:comp", Items: "@name C:allprop? C:prop* C:allcomp? C:comp*^", Order: "C:allprop<C:allcomp C:allprop<C:comp C:prop<C:allcomp C:prop<C:comp"},
	{Path: "C:calendar-data/C:comp/C:prop", Items: "@name", Optional: "@novalue?"},
	{Path: "C:calendar-data/C:expand", Items: "@start? @end?"}, // both required by the RFC; the encoder omits a zero time
}

// VerifH_C08_WireSchema: the wire structs of calendar-query,
// calendar-multiget and the calendar-data request map to exactly the
// elements, attributes, namespaces and child order of RFC 4791.

// verifFreeAttr: a free-form attribute of a request element. If its Go type
// decodes its own text, the decoder must accept the values the RFC requires
// every server to understand; an attribute of plain string type takes
// everything (encoding/xml stores the text).
func verifFreeAttr(field interface{}, what string, values []string) {
	u, ok := field.(encoding.TextUnmarshaler)
	if !ok {
		return
	}
	for _, v := range values {
		vrt.Assert(u.UnmarshalText([]byte(v)) == nil, what+" accepts "+v)
	}
}

// verifFreeAttrs: RFC 4791 section 7.5 (i;ascii-casemap and i;octet are required of every server); names are any iana-token or x-name.
func verifFreeAttrs() {
	var tm textMatch
	verifFreeAttr(&tm.Collation, "the collation attribute of text-match", []string{"i;ascii-casemap", "i;octet"})
	names := []string{"EMAIL", "X-ABC-DEF", "fn", "VERSION"}
	var vcompFilter compFilter
	verifFreeAttr(&vcompFilter.Name, "the name attribute of compFilter", names)
	var vpropFilter propFilter
	verifFreeAttr(&vpropFilter.Name, "the name attribute of propFilter", names)
	var vparamFilter paramFilter
	verifFreeAttr(&vparamFilter.Name, "the name attribute of paramFilter", names)
}

func VerifH_C08_WireSchema() {
	verifFreeAttrs()
	internal.VerifCheckShape(vrt.XMLShape(&calendarQuery{}), verifNS, verifQuerySchema, "calendar-query")
	internal.VerifCheckShape(vrt.XMLShape(&calendarMultiget{}), verifNS, verifMultigetSchema, "calendar-multiget")
	internal.VerifCheckShape(vrt.XMLShape(&calendarDataReq{}), verifNS, verifCalendarDataSchema, "calendar-data")
	vrt.Reach("wire-schema")
}

// RFC 4791 sections 5.2 and 6.2: the properties the server reports.
var verifPropSchemas = [][]internal.VerifShapeSpec{
	{{Path: "C:calendar-home-set", Items: "D:href"}},
	{{Path: "C:calendar-description", Items: "#text"}},
	{{Path: "C:supported-calendar-data", Items: "C:calendar-data*"}, {Path: "C:supported-calendar-data/C:calendar-data", Items: "@content-type @version"}},
	{{Path: "C:supported-calendar-component-set", Items: "C:comp*"}, {Path: "C:supported-calendar-component-set/C:comp", Items: "@name C:allprop? C:prop* C:allcomp? C:comp*^"}, {Path: "C:supported-calendar-component-set/C:comp/C:prop", Items: "@name"}},
	{{Path: "C:max-resource-size", Items: "#text"}},
	{{Path: "C:calendar-data", Items: "#text"}},
}

// VerifH_C10_WireSchema: the property elements of CalDAV answers.
func VerifH_C10_WireSchema() {
	vals := []interface{}{&calendarHomeSet{}, &calendarDescription{}, &supportedCalendarData{}, &supportedCalendarComponentSet{}, &maxResourceSize{}, &calendarDataResp{}}
	for i, v := range vals {
		internal.VerifCheckShape(vrt.XMLShape(v), verifNS, verifPropSchemas[i], "caldav property")
	}
	vrt.Reach("wire-schema")
}
