//go:build verif

package webdav

import (
	"path/filepath"
	"strings"

	vrt "github.com/emersion/go-webdav/internal/zz_verifrt"
)

var verifRoots = []string{"/srv/dav", "/r", "/r/", "/"}

func verifHasDotDot(p string) bool {
	return p == ".." || strings.HasPrefix(p, "../") || strings.HasSuffix(p, "/..") || strings.Contains(p, "/../")
}

// verifInside: p is the cleaned root or lies below it.
func verifInside(root, p string) bool {
	croot := filepath.Clean(root)
	if croot == "/" {
		return strings.HasPrefix(p, "/")
	}
	return p == croot || strings.HasPrefix(p, croot+"/")
}

// VerifH_C03_LocalPath: for every byte string name of length 0..N (every
// byte value) and four roots, localPath either refuses with a 4xx HTTP error
// or yields a path that is the root or below it, without "..", NUL or a
// doubled separator; mapping is idempotent through externalPath.
func VerifH_C03_LocalPath() {
	n := vrt.Choose("len", vrt.Param("maxlen", 5)+1)
	name := vrt.StrN("name", n)
	root := verifRoots[vrt.Choose("root", len(verifRoots))]
	fs := LocalFileSystem(root)
	p, err := fs.localPath(name)
	if err != nil {
		code := verifHTTPCode(err)
		vrt.Assert(code >= 400 && code < 500, "a path that cannot be mapped below the root is refused with 4xx")
		vrt.Assert(p == "", "refused path yields no local path")
		vrt.Reach("refused")
		return
	}
	vrt.Assert(verifInside(root, p), "local path lies inside the served directory")
	vrt.Assert(!verifHasDotDot(p), "local path has no dot-dot element")
	vrt.Assert(!strings.Contains(p, "\x00"), "local path has no NUL byte")
	vrt.Assert(!strings.Contains(p, "//"), "local path is clean (no empty element)")
	vrt.Reach("mapped")

	// reported path: inside the namespace and addressing the same resource
	ext, err := fs.externalPath(p)
	vrt.Assert(err == nil, "externalPath of a mapped path cannot fail")
	if err != nil {
		return
	}
	vrt.Assert(strings.HasPrefix(ext, "/") && !verifHasDotDot(ext), "reported path lies inside the served namespace")
	p2, err := fs.localPath(ext)
	vrt.Assert(err == nil && p2 == p, "reported path addresses the same resource when sent back")
	vrt.Reach("roundtrip")
}
