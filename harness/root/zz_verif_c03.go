//go:build verif

package webdav

import (
	"net/url"
	"path/filepath"
	"strings"

	"github.com/emersion/go-webdav/internal"

	vrt "github.com/emersion/go-webdav/internal/zz_verifrt"
)

var verifRoots = []string{"/srv/dav", "/r", "/r/", "/"}

func verifHasDotDot(p string) bool {
	return p == ".." || strings.HasPrefix(p, "../") || strings.HasSuffix(p, "/..") || strings.Contains(p, "/../")
}

// verifInside: p is the cleaned root or lies below it.
func verifInside(root, p string) bool {
	croot := filepath.Clean(root)
	if croot == "/" {
		return strings.HasPrefix(p, "/")
	}
	return p == croot || strings.HasPrefix(p, croot+"/")
}

// VerifH_C03_LocalPath: for every byte string name of length 0..N (every
// byte value) and four roots, localPath either refuses with a 4xx HTTP error
// or yields a path that is the root or below it, without "..", NUL or a
// doubled separator; mapping is idempotent through externalPath.
func VerifH_C03_LocalPath() {
	n := vrt.Choose("len", vrt.Param("maxlen", 5)+1)
	name := vrt.StrN("name", n)
	root := verifRoots[vrt.Choose("root", len(verifRoots))]
	fs := LocalFileSystem(root)
	p, err := fs.localPath(name)
	if err != nil {
		code := verifHTTPCode(err)
		vrt.Assert(code >= 400 && code < 500, "a path that cannot be mapped below the root is refused with 4xx")
		vrt.Assert(p == "", "refused path yields no local path")
		vrt.Reach("refused")
		return
	}
	vrt.Assert(verifInside(root, p), "local path lies inside the served directory")
	vrt.Assert(!verifHasDotDot(p), "local path has no dot-dot element")
	vrt.Assert(!strings.Contains(p, "\x00"), "local path has no NUL byte")
	vrt.Assert(!strings.Contains(p, "//"), "local path is clean (no empty element)")
	vrt.Reach("mapped")

	// reported path: inside the namespace and addressing the same resource
	ext, err := fs.externalPath(p)
	vrt.Assert(err == nil, "externalPath of a mapped path cannot fail")
	if err != nil {
		return
	}
	vrt.Assert(strings.HasPrefix(ext, "/") && !verifHasDotDot(ext), "reported path lies inside the served namespace")
	p2, err := fs.localPath(ext)
	vrt.Assert(err == nil && p2 == p, "reported path addresses the same resource when sent back")
	vrt.Reach("roundtrip")
}

// VerifH_C03_HrefBack: the path reported for a member whose name is any byte
// string (length <= hreflen, every byte value except NUL and the separator)
// goes into a multi-status as the text Href.MarshalText produces; a client
// that sends this text back as the request URI (parsed the way net/http
// parses a request line) addresses the same resource. Real net/url escaping
// and parsing code on exploded bytes.
func VerifH_C03_HrefBack() {
	n := 1 + vrt.Choose("len", vrt.Param("hreflen", 2))
	name := vrt.StrN("name", n)
	for i := 0; i < n; i++ {
		vrt.Assume(name[i] != '/' && name[i] != 0)
	}
	vrt.Assume(name != "." && name != "..")
	fs := LocalFileSystem("/srv/dav")
	local := "/srv/dav/" + name
	if vrt.Choose("nested", 2) == 1 {
		local = "/srv/dav/d/" + name
	}
	ext, err := fs.externalPath(local)
	vrt.Assert(err == nil, "a member of the served directory has a reportable path")
	if err != nil {
		return
	}
	text, err := (&internal.Href{Path: ext}).MarshalText()
	vrt.Assert(err == nil, "the reported path can be written as an href")
	if err != nil {
		return
	}
	u, err := url.ParseRequestURI(string(text))
	vrt.Assert(err == nil, "the reported href is a valid request URI")
	if err != nil {
		return
	}
	back, err := fs.localPath(u.Path)
	vrt.Assert(err == nil && back == local, "the reported href addresses the same resource when sent back as a request path")
	vrt.Reach("href-back")
}
