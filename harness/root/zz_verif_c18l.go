//go:build verif

package webdav

import (
	"net/http"
	"net/url"
	"time"

	"github.com/emersion/go-webdav/internal"
	vrt "github.com/emersion/go-webdav/internal/zz_verifrt"
)

func verifC18LTree() *verifTree {
	t := &verifTree{paths: []string{"/", "/a", "/d", "/d/x", "/n", "/m", "/e", "/e/x"}}
	t.kind = []int{kDir, kFile, kDir, kFile, kAbsent, kAbsent, kAbsent, kAbsent}
	t.content = []int{0, 0, 0, 1, 0, 0, 0, 0}
	return t
}

type verifC18LReq struct {
	method, path, dest string
	body               int
}

// verifSlowBody (native runs only): an upload that takes a while - its first
// Read tells the other request to start and then pauses, so that the other
// request arrives while the upload is in progress, the overlap the symbolic
// exploration found a problem in.
type verifSlowBody struct {
	verifBodyReader
	started chan struct{}
	told    bool
}

func (b *verifSlowBody) Read(p []byte) (int, error) {
	if !b.told {
		b.told = true
		close(b.started)
		time.Sleep(50 * time.Millisecond)
	}
	return b.verifBodyReader.Read(p)
}

func (r verifC18LReq) request() *http.Request {
	req := &http.Request{Method: r.method, URL: &url.URL{Path: r.path}, Header: http.Header{}, Host: "dav.example"}
	req.Body = http.NoBody
	switch r.method {
	case "PUT":
		req.Body = &verifBodyReader{content: r.body, failAfter: -1}
	case "PROPFIND":
		req.Header.Set("Depth", "0")
	case "COPY", "MOVE":
		req.Header.Set("Destination", r.dest)
	}
	return req
}

// verifC18LRun serves the requests on one handler over LocalFileSystem, each
// from its own goroutine when there are two, and returns the recorders and
// the tree afterwards; ok is false when a request is never answered.
func verifC18LRun(reqs []verifC18LReq) (recs []*verifRecorder, after *verifTree, ok bool) {
	t := verifC18LTree()
	root := verifMaterialise(t)
	defer verifCleanup()
	h := &Handler{FileSystem: LocalFileSystem(root)}
	recs = make([]*verifRecorder, len(reqs))
	if len(reqs) == 1 {
		recs[0] = newVerifRecorder()
		h.ServeHTTP(recs[0], reqs[0].request())
		after, _ = verifReadTree(t.paths, root)
		return recs, after, true
	}
	done := make(chan int, len(reqs))
	var started chan struct{}
	for i := range reqs {
		i := i
		recs[i] = newVerifRecorder()
		hr := reqs[i].request()
		wait := started
		if !vrt.Symbolic() && i == 0 && reqs[0].method == "PUT" {
			started = make(chan struct{})
			hr.Body = &verifSlowBody{verifBodyReader: verifBodyReader{content: reqs[0].body, failAfter: -1}, started: started}
		}
		go func() {
			if wait != nil {
				<-wait
			}
			h.ServeHTTP(recs[i], hr)
			done <- i
		}()
	}
	ok = vrt.Terminates(func() {
		for range reqs {
			<-done
		}
	})
	after, _ = verifReadTree(t.paths, root)
	return recs, after, ok
}

// VerifH_C18_LocalFSConcurrent: one request on a single resource (PUT new,
// PUT replacing, GET, PROPFIND, MKCOL) and one on a disjoint subtree (DELETE
// of a collection or of a file, COPY, MOVE of a collection) served by one
// Handler over LocalFileSystem (model file system) from two goroutines, under
// every interleaving of their visible operations: both are answered, each
// with the status and body it gets alone, and the tree afterwards is the one
// the two requests produce one after the other.
func VerifH_C18_LocalFSConcurrent() {
	internal.VerifResetWire()
	as := []verifC18LReq{
		{method: "PUT", path: "/n", body: 1},
		{method: "PUT", path: "/a", body: 1},
		{method: "GET", path: "/a"},
		{method: "PROPFIND", path: "/a"},
		{method: "MKCOL", path: "/m"},
	}
	bs := []verifC18LReq{
		{method: "DELETE", path: "/d"},
		{method: "DELETE", path: "/d/x"},
		{method: "COPY", path: "/d", dest: "/e"},
		{method: "MOVE", path: "/d", dest: "/e"},
	}
	a := as[vrt.Choose("single-resource-request", len(as))]
	b := bs[vrt.Choose("subtree-request", len(bs))]
	aloneA, _, _ := verifC18LRun([]verifC18LReq{a})
	aloneB, _, _ := verifC18LRun([]verifC18LReq{b})
	// one after the other, for the tree
	t := verifC18LTree()
	root := verifMaterialise(t)
	h := &Handler{FileSystem: LocalFileSystem(root)}
	h.ServeHTTP(newVerifRecorder(), a.request())
	h.ServeHTTP(newVerifRecorder(), b.request())
	want, _ := verifReadTree(t.paths, root)
	verifCleanup()

	recs, after, ok := verifC18LRun([]verifC18LReq{a, b})
	vrt.Assert(ok, "both requests are answered (no request blocks the other for ever)")
	if !ok {
		return
	}
	vrt.Assert(recs[0].code == aloneA[0].code, a.method+": same status as when served alone")
	vrt.Assert(recs[1].code == aloneB[0].code, b.method+": same status as when served alone")
	if a.method == "GET" {
		vrt.Assert(recs[0].body() == aloneA[0].body(), "GET: same body as when served alone")
	}
	vrt.Assert(after.equal(want), "the tree afterwards is the one the two requests produce one after the other")
	vrt.Assert(vrt.Races() == "", "no unsynchronised conflicting accesses: "+vrt.Races())
	vrt.Reach("both-answered")
}
