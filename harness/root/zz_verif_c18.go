//go:build verif

package webdav

import (
	"context"
	"errors"
	"io"
	"net/http"
	"sync/atomic"
	"time"

	"github.com/emersion/go-webdav/internal"
	vrt "github.com/emersion/go-webdav/internal/zz_verifrt"
)

// verifCtx is a cancellable context without the context package's
// machinery (atomic.Value, unsafe) behind it.
type verifCtx struct {
	done chan struct{}
}

func (c *verifCtx) Deadline() (time.Time, bool) { return time.Time{}, false }
func (c *verifCtx) Done() <-chan struct{}       { return c.done }
func (c *verifCtx) Err() error {
	select {
	case <-c.done:
		return context.Canceled
	default:
		return nil
	}
}
func (c *verifCtx) Value(key interface{}) interface{} { return nil }

type verifEmptyBody struct{}

func (verifEmptyBody) Read(p []byte) (int, error) { return 0, io.EOF }
func (verifEmptyBody) Close() error               { return nil }

var errVerifConnReset = errors.New("verif: connection reset by peer")

// verifUpTransport plays net/http's part of an upload: a write loop in its
// own goroutine that reads the request body, a round trip that waits for
// the write loop or the context, then answers or fails. As net/http
// documents for RoundTripper, the request body is always closed, possibly
// from another goroutine after the round trip has returned.
type verifUpTransport struct {
	maxReads  int // Read calls the server side is willing to make; -1: until end of body
	bufSize   int
	fail      bool
	status    int
	lateClose bool
	got       []byte
	sawEOF    bool
	outcome   int32         // 0 pending, 1 answered, 2 transport failure, 3 cancelled
	readDone  chan struct{} // closed when the write loop has finished
}

func (t *verifUpTransport) Do(req *http.Request) (*http.Response, error) {
	ctx := req.Context()
	readDone := t.readDone
	go func() {
		defer close(readDone)
		for i := 0; t.maxReads < 0 || i < t.maxReads; i++ {
			buf := make([]byte, t.bufSize)
			n, err := req.Body.Read(buf)
			t.got = append(t.got, buf[:n]...)
			if err != nil {
				t.sawEOF = err == io.EOF
				return
			}
		}
	}()
	outcome := int32(1)
	select {
	case <-readDone:
		if t.fail {
			outcome = 2
		}
	case <-ctx.Done():
		outcome = 3
	}
	vrt.Event("answer")
	atomic.StoreInt32(&t.outcome, outcome)
	if t.lateClose {
		go func() { req.Body.Close() }()
	} else {
		req.Body.Close()
	}
	switch outcome {
	case 2:
		return nil, errVerifConnReset
	case 3:
		return nil, ctx.Err()
	}
	return &http.Response{StatusCode: t.status, Header: http.Header{}, Body: verifEmptyBody{}, Request: req}, nil
}

// VerifH_C18_Upload: a streamed upload (Create, Write..., Close) against a
// transport that reads none, some or all of the body, then answers with any
// status, fails, or is cancelled - under every interleaving of the caller,
// the library's goroutine and the transport's goroutines: Close terminates,
// returns only after the exchange is over, nil exactly for a 2xx answer and
// the failure otherwise, what the server read is what was written, and no
// goroutine is left behind.
func VerifH_C18_Upload() {
	vrt.GoroutineBaseline()
	t := &verifUpTransport{bufSize: 1 + 3*vrt.Choose("server-buffer-4", 2), readDone: make(chan struct{})}
	switch vrt.Choose("server-reads", 4) {
	case 0:
		t.maxReads = 0
	case 1:
		t.maxReads = 1
	case 2:
		t.maxReads = 2
	default:
		t.maxReads = -1
	}
	if vrt.Choose("transport-fails", 2) == 1 {
		t.fail = true
	} else {
		t.status = vrt.Int("status")
	}
	t.lateClose = vrt.Choose("body-closed-late", 2) == 1
	c, err := NewClient(t, "http://h/dav/")
	if err != nil {
		vrt.Fail("NewClient")
		return
	}
	ctx := &verifCtx{done: make(chan struct{})}
	w, err := c.Create(ctx, "f")
	vrt.Assert(err == nil && w != nil, "Create succeeds")
	if err != nil {
		return
	}
	nw := vrt.Choose("writes", vrt.Param("maxwrites", 2)+1)
	cancelAt := vrt.Choose("cancel-before-step", nw+2) // 0: never
	var written []byte
	var closeErr error
	outcomeAtClose := int32(0)
	ok := vrt.Terminates(func() {
		for i := 0; i < nw; i++ {
			if cancelAt == i+1 {
				close(ctx.done)
			}
			b := []byte(vrt.StrN("chunk", 1+vrt.Choose("chunk-2", 2)))
			vrt.Event("write")
			n, werr := w.Write(b)
			vrt.Assert(n >= 0 && n <= len(b), "Write reports a count within the slice")
			vrt.Assert((werr == nil) == (n == len(b)), "Write fails exactly when it is short")
			written = append(written, b[:n]...)
			if werr != nil {
				break
			}
		}
		if cancelAt == nw+1 {
			close(ctx.done)
		}
		vrt.Event("close")
		closeErr = w.Close()
		vrt.Event("closed")
		outcomeAtClose = atomic.LoadInt32(&t.outcome)
		if outcomeAtClose != 0 {
			<-t.readDone // the write loop ends once the body is closed
		}
	})
	vrt.Assert(ok, "the upload terminates: Write and Close return")
	if !ok {
		return
	}
	vrt.Assert(outcomeAtClose != 0, "Close returns only after the server has answered or the exchange has failed")
	if outcomeAtClose == 0 {
		return
	}
	success := outcomeAtClose == 1 && t.status/100 == 2
	vrt.Assert((closeErr == nil) == success, "Close returns nil exactly when the answer was 2xx")
	switch outcomeAtClose {
	case 1:
		if !success {
			var he *internal.HTTPError
			vrt.Assert(errors.As(closeErr, &he) && he.Code == t.status, "a non-2xx answer is returned as an HTTPError with its status")
			vrt.Reach("refused-by-server")
		} else {
			vrt.Reach("stored")
		}
	case 2:
		vrt.Assert(errors.Is(closeErr, errVerifConnReset), "a transport failure is returned by Close")
		vrt.Reach("transport-failure")
	case 3:
		vrt.Assert(errors.Is(closeErr, context.Canceled), "cancellation is returned by Close")
		vrt.Reach("cancelled")
	}
	left := vrt.Quiesce()
	vrt.Assert(left == 0, "no goroutine outlives Close")
	// what the server side read is a prefix of what Write accepted, and all
	// of it when it read up to the end of the body
	vrt.Assert(len(t.got) <= len(written) && string(t.got) == string(written[:len(t.got)]), "the server reads the bytes written, in order")
	if t.sawEOF {
		vrt.Assert(len(t.got) == len(written), "a body read to its end is the whole of what was written")
		vrt.Reach("read-to-end")
	}
}
