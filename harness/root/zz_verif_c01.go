//go:build verif

package webdav

import (
	"bytes"
	"encoding/xml"
	"net/http"
	"net/url"
	"path/filepath"
	"sort"
	"strconv"
	"strings"
	"time"

	"github.com/emersion/go-webdav/internal"
	vrt "github.com/emersion/go-webdav/internal/zz_verifrt"
)

// verifRecorder is a minimal http.ResponseWriter.
type verifRecorder struct {
	hdr   http.Header
	code  int
	parts []string
}

func newVerifRecorder() *verifRecorder { return &verifRecorder{hdr: http.Header{}} }

func (r *verifRecorder) Header() http.Header { return r.hdr }
func (r *verifRecorder) WriteHeader(code int) {
	if r.code == 0 {
		r.code = code
	}
}
func (r *verifRecorder) Write(b []byte) (int, error) {
	if r.code == 0 {
		r.code = 200
	}
	r.parts = append(r.parts, string(b))
	return len(b), nil
}
func (r *verifRecorder) WriteString(s string) (int, error) {
	if r.code == 0 {
		r.code = 200
	}
	r.parts = append(r.parts, s)
	return len(s), nil
}
func (r *verifRecorder) body() string { return strings.Join(r.parts, "") }

// ---------------------------------------------------------------------------
// request description

type verifReq struct {
	method       string
	path         string
	pi           int
	body         int    // PUT: content id
	bodyFails    int    // PUT: -1 never, else fails after that many bytes
	dest         int    // COPY/MOVE: 0 missing header, 1 unparsable, 2 a universe path
	di           int    // destination index
	depth        string // "" absent
	hasDepth     bool
	overwrite    string
	hasOverwrite bool
	contentType  bool // MKCOL announces a body
	ifMatch      string
	ifNoneMatch  string
}

var verifC01Methods = []string{"OPTIONS", "GET", "HEAD", "PUT", "DELETE", "MKCOL", "COPY", "MOVE", "PROPFIND", "PROPPATCH", "BREW"}

// verifOnlyMethods restricts symRequest to some methods (nil: all of them).
var verifOnlyMethods []string

func symHeader(tag string, literals []string) (string, bool) {
	k := vrt.Choose(tag+"-form", len(literals)+2)
	switch {
	case k == 0:
		return "", false
	case k <= len(literals):
		return literals[k-1], true
	}
	v := vrt.Str(tag)
	vrt.Assume(v != "")
	for _, l := range literals {
		vrt.Assume(v != l)
	}
	return v, true
}

func symRequest(t *verifTree, faults bool) *verifReq {
	r := &verifReq{bodyFails: -1}
	r.method = verifC01Methods[vrt.Choose("method", len(verifC01Methods))]
	if verifOnlyMethods != nil {
		ok := false
		for _, m := range verifOnlyMethods {
			ok = ok || m == r.method
		}
		vrt.Assume(ok)
	}
	r.pi = vrt.Choose("path", len(t.paths))
	r.path = t.paths[r.pi]
	if r.pi != 0 && r.method != "COPY" && r.method != "MOVE" && vrt.Choose("trailing-slash", 2) == 1 {
		// the same resource addressed with a trailing slash
		r.path += "/"
	}
	switch r.method {
	case "PUT":
		r.body = vrt.Choose("body", 2)
		if faults && vrt.Choose("body-fails", 2) == 1 {
			r.bodyFails = vrt.IntRange("body-fails-after", 0, len(verifContentBytes(r.body)))
		}
	case "MKCOL":
		r.contentType = vrt.Choose("mkcol-content-type", 2) == 1
	case "COPY", "MOVE":
		r.dest = vrt.Choose("destination-form", 3)
		if r.dest == 2 {
			r.di = vrt.Choose("destination", len(t.paths))
		}
		r.depth, r.hasDepth = symHeader("Depth", []string{"0", "1", "infinity"})
		r.overwrite, r.hasOverwrite = symHeader("Overwrite", []string{"T", "F"})
	case "PROPFIND":
		r.depth, r.hasDepth = symHeader("Depth", []string{"0", "1", "infinity"})
	case "DELETE":
		r.depth, r.hasDepth = symHeader("Depth", []string{"0", "1", "infinity"})
	}
	return r
}

func (r *verifReq) httpRequest(t *verifTree) *http.Request {
	hr := &http.Request{Method: r.method, URL: &url.URL{Path: r.path}, Header: http.Header{}, Host: "dav.example"}
	switch r.method {
	case "PUT":
		hr.Body = &verifBodyReader{content: r.body, failAfter: r.bodyFails}
	default:
		hr.Body = http.NoBody
	}
	if r.contentType {
		hr.Header.Set("Content-Type", "text/xml")
	}
	switch r.dest {
	case 1:
		hr.Header.Set("Destination", "http://dav.example/%zz")
	case 2:
		hr.Header.Set("Destination", (&url.URL{Scheme: "http", Host: "dav.example", Path: t.paths[r.di]}).String())
	}
	if r.hasDepth {
		hr.Header["Depth"] = []string{r.depth}
	}
	if r.hasOverwrite {
		hr.Header["Overwrite"] = []string{r.overwrite}
	}
	if r.ifMatch != "" {
		hr.Header["If-Match"] = []string{r.ifMatch}
	}
	if r.ifNoneMatch != "" {
		hr.Header["If-None-Match"] = []string{r.ifNoneMatch}
	}
	return hr
}

// ---------------------------------------------------------------------------
// the abstract RFC 4918 resource tree (reference model)

type refOutcome struct {
	refusals []int      // admissible refusal statuses (any one of them); empty: must succeed
	success  []int      // admissible success statuses
	tree     *verifTree // tree afterwards when it succeeds
}

func (t *verifTree) exists(i int) bool { return t.kind[i] != kAbsent }

// parentOK: the parent collection exists.
func (t *verifTree) parentOK(i int) bool {
	pi := t.parent(i)
	return pi < 0 || t.kind[pi] == kDir
}

func (t *verifTree) removeSubtree(i int) {
	p := t.paths[i]
	for j, q := range t.paths {
		if q == p || verifIsUnder(q, p) {
			t.kind[j] = kAbsent
		}
	}
}

// copySubtree reproduces src at dst (deep or bare); ok=false when the result
// leaves the universe.
func (t *verifTree) copySubtree(from *verifTree, si, di int, deep bool) bool {
	sp, dp := t.paths[si], t.paths[di]
	t.kind[di] = from.kind[si]
	t.content[di] = from.content[si]
	if !deep || from.kind[si] != kDir {
		return true
	}
	for j, q := range from.paths {
		if from.kind[j] == kAbsent || !verifIsUnder(q, sp) {
			continue
		}
		var target string
		if sp == "/" {
			target = dp + q
		} else {
			target = dp + q[len(sp):]
		}
		ti := t.index(target)
		if ti < 0 {
			return false
		}
		t.kind[ti] = from.kind[j]
		t.content[ti] = from.content[j]
	}
	return true
}

func refStep(before *verifTree, r *verifReq) (*refOutcome, bool) {
	out := &refOutcome{tree: before.copy()}
	refuse := func(code int) { out.refusals = append(out.refusals, code) }
	i := r.pi
	switch r.method {
	case "OPTIONS":
		out.success = []int{200, 204}
	case "GET", "HEAD":
		switch {
		case !before.exists(i):
			refuse(404)
		case before.kind[i] == kDir:
			refuse(405)
		}
		out.success = []int{200}
	case "PUT":
		switch {
		case before.kind[i] == kDir:
			refuse(405)
		case !before.parentOK(i):
			refuse(409)
		}
		if r.bodyFails >= 0 {
			// the upload breaks off: any failure status, nothing may change
			out.refusals = append(out.refusals, -1)
		}
		if before.exists(i) {
			out.success = []int{200, 204}
		} else {
			out.success = []int{201}
		}
		out.tree.kind[i] = kFile
		out.tree.content[i] = r.body
	case "DELETE":
		if r.hasDepth && r.depth != "infinity" {
			// RFC 4918 9.6.1: DELETE acts on the whole subtree; any other
			// Depth is unsupported, and an invalid one is invalid
			refuse(400)
		}
		if !before.exists(i) {
			refuse(404)
		}
		out.success = []int{200, 204}
		out.tree.removeSubtree(i)
	case "MKCOL":
		switch {
		case r.contentType:
			refuse(415)
		}
		if before.exists(i) {
			refuse(405)
		} else if !before.parentOK(i) {
			refuse(409)
		}
		out.success = []int{201}
		out.tree.kind[i] = kDir
	case "COPY", "MOVE":
		if r.dest != 2 {
			refuse(400)
		}
		if r.hasDepth {
			if r.method == "COPY" && r.depth != "0" && r.depth != "infinity" {
				refuse(400)
			}
			if r.method == "MOVE" && r.depth != "infinity" {
				refuse(400)
			}
		}
		if r.hasOverwrite && r.overwrite != "T" && r.overwrite != "F" {
			refuse(400)
		}
		if !before.exists(i) {
			refuse(404)
		}
		if r.dest == 2 {
			d := r.di
			sp, dp := before.paths[i], before.paths[d]
			if d == i {
				refuse(403)
			} else if verifIsUnder(dp, sp) || verifIsUnder(sp, dp) {
				out.refusals = append(out.refusals, -4) // some 4xx
			}
			if !before.parentOK(d) {
				refuse(409)
			}
			if before.exists(d) && r.hasOverwrite && r.overwrite == "F" {
				refuse(412)
			}
			if len(out.refusals) == 0 {
				if before.exists(d) {
					out.success = []int{204}
				} else {
					out.success = []int{201}
				}
				deep := !(r.method == "COPY" && r.hasDepth && r.depth == "0")
				out.tree.removeSubtree(d)
				if !out.tree.copySubtree(before, i, d, deep) {
					return nil, false
				}
				if r.method == "MOVE" {
					// the source vanishes (destination is never inside it here)
					src := before.paths[i]
					for j, q := range before.paths {
						if q == src || verifIsUnder(q, src) {
							out.tree.kind[j] = kAbsent
						}
					}
				}
			}
		}
	case "PROPFIND":
		if r.hasDepth && r.depth != "0" && r.depth != "1" && r.depth != "infinity" {
			refuse(400)
		}
		if !before.exists(i) {
			refuse(404)
		}
		out.success = []int{207}
	case "PROPPATCH":
		out.refusals = append(out.refusals, -4) // not supported by this server: some 4xx
	default:
		refuse(405)
	}
	if len(out.refusals) > 0 {
		out.tree = before.copy()
	}
	return out, true
}

func statusIn(code int, set []int) bool {
	for _, s := range set {
		if s == code || (s == -4 && code >= 400 && code < 500) || (s == -1 && code >= 400) {
			return true
		}
	}
	return false
}

// ---------------------------------------------------------------------------
// the harness

// verifConfigs: besides the main configuration (the universe, spellings and
// root form the parameters select) a check can explore side configurations
// on the small universe: parameter "configs" = 1 + how many of these.
//
//	1: member name "..b"    2: served directory given with a trailing separator
//	3: member name "b c%41#?"
var verifConfig int

func verifPickConfig() {
	verifConfig = 0
	if n := vrt.Param("configs", 1); n > 1 {
		verifConfig = vrt.Choose("config", n)
	}
}

func verifUniverse() []string {
	if verifConfig != 0 {
		return verifUniverseQuick
	}
	switch vrt.Param("universe", 0) {
	case 1:
		return verifUniverseThorough
	case 2:
		return verifUniverseDeep
	}
	return verifUniverseQuick
}

// verifSpellings: what the member name "b" of the universe is spelled like
// (parameter "spellings" = how many of them are explored): a plain name that
// extends its sibling's, a
// name that begins with two dots (legal, and not a dot-dot segment), a name
// with a blank and the characters that need escaping in URLs.
var verifSpellings = []string{"ab", "..b", "b c%41#?"}

func verifSpell(paths []string) []string {
	n := vrt.Param("spellings", 1)
	// the plain spelling is "ab": a sibling of "a" whose name (and path)
	// has the sibling's as a string prefix
	name := verifSpellings[0]
	switch {
	case verifConfig == 1:
		name = verifSpellings[1]
	case verifConfig == 3:
		name = verifSpellings[2]
	case verifConfig == 0 && n > 1:
		name = verifSpellings[vrt.Choose("name-spelling", n)]
	}
	out := make([]string, len(paths))
	for i, p := range paths {
		segs := strings.Split(p, "/")
		for j := range segs {
			if segs[j] == "b" {
				segs[j] = name
			}
		}
		out[i] = strings.Join(segs, "/")
	}
	return out
}

// forbidden targets that would legitimately remove or replace the served root
func rootExcluded(r *verifReq) bool {
	switch r.method {
	case "DELETE", "MOVE", "PUT", "MKCOL":
		if r.pi == 0 {
			return true
		}
	}
	// the root as COPY/MOVE destination stays in: it contains every source,
	// so the request must be refused before anything is touched
	return false
}

var verifWantOpenFault bool

type verifRun struct {
	t      *verifTree
	before *verifTree
	after  *verifTree
	extra  []string
	req    *verifReq
	rec    *verifRecorder
	root   string
	ms     *internal.MultiStatus
	statFI *FileInfo
	// the source of a COPY cannot be read although it can be opened
	copyFault bool
}

// runStep: one request against an arbitrary valid tree.
func runStep(faults bool, conditional bool) *verifRun {
	internal.VerifResetWire()
	verifPickConfig()
	t := symTree(verifUniverse())
	t.paths = verifSpell(t.paths)
	req := symRequest(t, faults)
	vrt.Assume(!rootExcluded(req))
	run := &verifRun{t: t, req: req, before: t.copy()}
	run.root = verifMaterialise(t)
	if verifWantOpenFault && (req.method == "GET" || req.method == "HEAD") && vrt.Choose("file-cannot-be-opened", 2) == 1 {
		// fault: the addressed file exists but the OS refuses to open it
		vrt.Assume(t.kind[req.pi] == kFile)
		if vrt.Symbolic() {
			verifOpenFault = true
		} else if !verifMakeUnopenable(filepath.Join(run.root, req.path)) {
			vrt.Assume(false)
		}
	}
	if (verifWantOpenFault || verifWantCopyFault) && req.method == "COPY" && vrt.Choose("copy-source-unreadable", 2) == 1 {
		// fault: the source file can be opened but reading it fails
		vrt.Assume(t.kind[req.pi] == kFile)
		run.copyFault = true
		if vrt.Symbolic() {
			verifCopyReadFault = true
		} else if !verifMakeUnreadable(filepath.Join(run.root, req.path)) {
			vrt.Assume(false)
		}
	}
	fs := LocalFileSystem(run.root)
	if verifConfig == 2 || (verifConfig == 0 && vrt.Param("rootforms", 1) > 1 && vrt.Choose("root-trailing-separator", 2) == 1) {
		// the served directory configured with a trailing separator
		fs = LocalFileSystem(run.root + "/")
	}
	if conditional {
		symConditional(run, fs)
	}
	// what a client learns about the resource beforehand (for GET/HEAD)
	if req.method == "GET" || req.method == "HEAD" || req.method == "PUT" {
		run.statFI, _ = fs.Stat(nil, req.path)
	}
	h := &Handler{FileSystem: fs}
	run.rec = newVerifRecorder()
	panicked := interface{}(nil)
	func() {
		defer func() { panicked = recover() }()
		h.ServeHTTP(run.rec, req.httpRequest(t))
	}()
	vrt.Assert(panicked == nil, "file server must not panic")
	if run.rec.code == 0 {
		run.rec.code = 200
	}
	run.after, run.extra = verifReadTree(t.paths, run.root)
	if vrt.Symbolic() {
		run.ms = internal.VerifServed
	} else if run.rec.code == 207 {
		run.ms = &internal.MultiStatus{}
		if err := xml.Unmarshal([]byte(run.rec.body()), run.ms); err != nil {
			vrt.Fail("207 body is not a readable multi-status: " + err.Error())
		}
	}
	return run
}

func symConditional(run *verifRun, fs LocalFileSystem) {
	req := run.req
	if req.method != "PUT" && req.method != "DELETE" {
		return
	}
	cur := ""
	if fi, err := fs.Stat(nil, req.path); err == nil {
		cur = internal.ETag(fi.ETag).String()
	}
	pick := func(tag string) string {
		switch vrt.Choose(tag, 6) {
		case 1:
			return "*"
		case 2:
			return cur // the current tag ("" when the resource is absent)
		case 3:
			return "\"stale-tag\""
		case 4:
			return "not-quoted"
		case 5:
			return "\"\""
		}
		return ""
	}
	req.ifMatch = pick("if-match")
	req.ifNoneMatch = pick("if-none-match")
}

// VerifH_C01_Step: every (tree state, single request) pair of the universe.
func VerifH_C01_Step() {
	run := runStep(false, false)
	defer verifCleanup()
	checkStep(run, "C01")
}

func checkStep(run *verifRun, tag string) {
	req, rec := run.req, run.rec
	want, inside := refStep(run.before, req)
	if !inside {
		vrt.Assume(false) // result leaves the modelled universe
	}
	m := req.method
	vrt.Assert(len(run.extra) == 0, m+": nothing is created outside the addressed resources")
	if len(want.refusals) > 0 {
		vrt.Assert(statusIn(rec.code, want.refusals), m+": a request the model refuses gets the RFC 4918 status")
		vrt.Assert(run.after.equal(run.before), m+": a refused request leaves the tree unchanged")
		vrt.Reach(tag + "/" + m + "/refused")
		return
	}
	vrt.Assert(statusIn(rec.code, want.success), m+": success status")
	vrt.Assert(run.after.equal(want.tree), m+": tree afterwards equals the abstract resource tree")
	if rec.code >= 400 {
		return
	}
	switch m {
	case "GET", "HEAD":
		fi := run.statFI
		if fi != nil {
			if m == "GET" {
				vrt.Assert(rec.body() == verifContentBytes(run.before.content[req.pi]), "GET: body is the stored content")
			} else {
				vrt.Assert(rec.body() == "", "HEAD: no body")
			}
			vrt.Assert(rec.hdr.Get("ETag") == internal.ETag(fi.ETag).String(), "GET/HEAD: ETag is the resource's tag")
			vrt.Assert(rec.hdr.Get("Content-Length") == strconv.FormatInt(int64(len(verifContentBytes(run.before.content[req.pi]))), 10), "GET/HEAD: Content-Length is the stored size")
			if !vrt.Symbolic() || true {
				vrt.Assert(rec.hdr.Get("Last-Modified") == fi.ModTime.UTC().Format(http.TimeFormat), "GET/HEAD: Last-Modified is the stored modification time")
			}
		}
	case "PUT":
		// the tag announced by PUT is the one a later Stat/GET/PROPFIND reports
		fs := LocalFileSystem(run.root)
		if fi, err := fs.Stat(nil, req.path); err == nil {
			vrt.Assert(rec.hdr.Get("ETag") == internal.ETag(fi.ETag).String(), "PUT: announced ETag is the stored resource's tag")
		} else {
			vrt.Fail("PUT: resource cannot be stat'ed after a successful PUT")
		}
	case "OPTIONS":
		allow := rec.hdr.Get("Allow")
		dav := rec.hdr.Get("DAV")
		vrt.Assert(strings.Contains(dav, "1") && strings.Contains(dav, "3"), "OPTIONS: DAV classes 1 and 3")
		isFile := run.before.kind[req.pi] == kFile
		vrt.Assert(strings.Contains(allow, "GET") == isFile, "OPTIONS: GET allowed exactly on files")
		vrt.Assert(strings.Contains(allow, "MKCOL") == !run.before.exists(req.pi), "OPTIONS: MKCOL allowed exactly on unmapped URLs")
		vrt.Assert(strings.Contains(allow, "DELETE") == run.before.exists(req.pi), "OPTIONS: DELETE allowed exactly on existing resources")
	case "PROPFIND":
		checkPropfind(run)
	}
	vrt.Reach(tag + "/" + m + "/done")
}

func checkPropfind(run *verifRun) {
	req := run.req
	ms := run.ms
	vrt.Assert(ms != nil, "PROPFIND: a multi-status is served")
	if ms == nil {
		return
	}
	// scope
	var scope []int
	base := run.before.paths[req.pi]
	for j, q := range run.before.paths {
		if !run.before.exists(j) {
			continue
		}
		in := false
		switch {
		case j == req.pi:
			in = true
		case req.hasDepth && req.depth == "0":
		case req.hasDepth && req.depth == "1":
			in = verifParentPath(q) == base
		default:
			in = verifIsUnder(q, base)
		}
		if in {
			scope = append(scope, j)
		}
	}
	vrt.Assert(len(ms.Responses) == len(scope), "PROPFIND: one response per resource in scope")
	var got []string
	for k := range ms.Responses {
		resp := &ms.Responses[k]
		vrt.Assert(len(resp.Hrefs) == 1, "PROPFIND: exactly one href per response")
		if len(resp.Hrefs) != 1 {
			return
		}
		got = append(got, strings.TrimSuffix(resp.Hrefs[0].Path, "/"))
	}
	sort.Strings(got)
	var want []string
	for _, j := range scope {
		want = append(want, strings.TrimSuffix(run.before.paths[j], "/"))
	}
	sort.Strings(want)
	if len(got) == len(want) {
		for k := range want {
			vrt.Assert(got[k] == want[k], "PROPFIND: responses address exactly the resources in scope")
		}
	}
	// properties of each resource (empty body = allprop)
	for k := range ms.Responses {
		resp := &ms.Responses[k]
		p := strings.TrimSuffix(resp.Hrefs[0].Path, "/")
		if p == "" {
			p = "/"
		}
		j := run.before.index(p)
		if j < 0 {
			continue
		}
		var rt internal.ResourceType
		err := verifDecodeProp(resp, &rt)
		vrt.Assert(err == nil, "PROPFIND: resourcetype reported")
		if err == nil {
			vrt.Assert(rt.Is(internal.CollectionName) == (run.before.kind[j] == kDir), "PROPFIND: collection flag is the stored kind")
		}
		if run.before.kind[j] == kFile {
			var gl internal.GetContentLength
			err := verifDecodeProp(resp, &gl)
			vrt.Assert(err == nil && gl.Length == int64(len(verifContentBytes(run.before.content[j]))), "PROPFIND: getcontentlength is the stored size")
			var ge internal.GetETag
			err = verifDecodeProp(resp, &ge)
			vrt.Assert(err == nil && string(ge.ETag) != "", "PROPFIND: getetag reported for files")
			// one and the same tag as Stat (and therefore GET, HEAD, PUT) reports
			if fi, serr := LocalFileSystem(run.root).Stat(nil, p); serr == nil && err == nil {
				vrt.Assert(string(ge.ETag) == fi.ETag, "PROPFIND: getetag is the tag GET and PUT announce")
			}
		}
		if fi, serr := LocalFileSystem(run.root).Stat(nil, p); serr == nil {
			var lm internal.GetLastModified
			if err := verifDecodeProp(resp, &lm); err == nil {
				vrt.Assert(time.Time(lm.LastModified).Unix() == fi.ModTime.Unix(), "PROPFIND: getlastmodified is the stored modification time")
			} else {
				vrt.Fail("PROPFIND: getlastmodified reported")
			}
		}
	}
}

// verifDecodeProp reads a typed property of a response: over the identity
// wire symbolically, through the real XML decoder natively.
func verifDecodeProp(resp *internal.Response, v interface{}) error {
	return resp.DecodeProp(v)
}

var _ = bytes.NewReader
