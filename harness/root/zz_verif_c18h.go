//go:build verif

package webdav

import (
	"context"
	"io"
	"net/http"
	"net/url"
	"strings"
	"sync"

	"github.com/emersion/go-webdav/internal"
	vrt "github.com/emersion/go-webdav/internal/zz_verifrt"
)

// verifLockedFS: the recording file system made safe for concurrent use, as
// the library requires of a FileSystem.
type verifLockedFS struct {
	mu sync.Mutex
	m  *verifMemFS
}

func (l *verifLockedFS) Open(ctx context.Context, name string) (io.ReadCloser, error) {
	l.mu.Lock()
	defer l.mu.Unlock()
	return l.m.Open(ctx, name)
}
func (l *verifLockedFS) Stat(ctx context.Context, name string) (*FileInfo, error) {
	l.mu.Lock()
	defer l.mu.Unlock()
	return l.m.Stat(ctx, name)
}
func (l *verifLockedFS) ReadDir(ctx context.Context, name string, recursive bool) ([]FileInfo, error) {
	l.mu.Lock()
	defer l.mu.Unlock()
	return l.m.ReadDir(ctx, name, recursive)
}
func (l *verifLockedFS) Create(ctx context.Context, name string, body io.ReadCloser, opts *CreateOptions) (*FileInfo, bool, error) {
	l.mu.Lock()
	defer l.mu.Unlock()
	return l.m.Create(ctx, name, body, opts)
}
func (l *verifLockedFS) RemoveAll(ctx context.Context, name string, opts *RemoveAllOptions) error {
	l.mu.Lock()
	defer l.mu.Unlock()
	return l.m.RemoveAll(ctx, name, opts)
}
func (l *verifLockedFS) Mkdir(ctx context.Context, name string) error {
	l.mu.Lock()
	defer l.mu.Unlock()
	return l.m.Mkdir(ctx, name)
}
func (l *verifLockedFS) Copy(ctx context.Context, name, dest string, options *CopyOptions) (bool, error) {
	l.mu.Lock()
	defer l.mu.Unlock()
	return l.m.Copy(ctx, name, dest, options)
}
func (l *verifLockedFS) Move(ctx context.Context, name, dest string, options *MoveOptions) (bool, error) {
	l.mu.Lock()
	defer l.mu.Unlock()
	return l.m.Move(ctx, name, dest, options)
}

func verifC18FS() (*Handler, *verifMemFS) {
	m := &verifMemFS{content: map[string]string{"/a": "xa", "/b": "xyb"}}
	m.infos = []FileInfo{
		{Path: "/", IsDir: true},
		{Path: "/a", Size: 2, ETag: "ta", MIMEType: "text/a"},
		{Path: "/b", Size: 3, ETag: "tb", MIMEType: "text/b"},
	}
	return &Handler{FileSystem: &verifLockedFS{m: m}}, m
}

type verifOneFS struct {
	method, path, dest string
}

func verifC18FSRequest(r verifOneFS) *http.Request {
	req := &http.Request{Method: r.method, URL: &url.URL{Path: r.path}, Header: http.Header{}, Host: "dav.example"}
	req.Body = http.NoBody
	switch r.method {
	case "PUT":
		req.Body = &verifStringReader{s: "new" + r.path}
	case "PROPFIND":
		req.Header.Set("Depth", "0")
	case "COPY", "MOVE":
		req.Header.Set("Destination", r.dest)
	}
	return req
}

func verifC18FSCalls(m *verifMemFS, path string) string {
	var l []string
	for i, c := range m.calls {
		if m.names[i] == path {
			l = append(l, c+">"+m.dests[i])
		}
	}
	return strings.Join(l, ",")
}

// VerifH_C18_HandlerConcurrent: two requests for disjoint resources served by
// one webdav.Handler from two goroutines: each gets the status, headers, body
// and file-system calls it gets when served alone, and no memory outside the
// harness's own bookkeeping is accessed by both without synchronisation.
func VerifH_C18_HandlerConcurrent() {
	internal.VerifResetWire()
	methods := []string{"OPTIONS", "GET", "HEAD", "DELETE", "PROPFIND", "PUT", "MKCOL", "COPY", "MOVE"}
	files := [2]string{"/a", "/b"}
	fresh := [2]string{"/e", "/f"}
	var reqs [2]verifOneFS
	for i := 0; i < 2; i++ {
		m := methods[vrt.Choose("method", len(methods))]
		r := verifOneFS{method: m, path: files[i]}
		switch m {
		case "MKCOL":
			r.path = fresh[i]
		case "COPY", "MOVE":
			r.dest = fresh[i]
		}
		reqs[i] = r
	}
	var alone [2]*verifRecorder
	var aloneCalls [2]string
	for i := range reqs {
		h, m := verifC18FS()
		alone[i] = newVerifRecorder()
		h.ServeHTTP(alone[i], verifC18FSRequest(reqs[i]))
		aloneCalls[i] = verifC18FSCalls(m, reqs[i].path)
	}
	h, m := verifC18FS()
	var together [2]*verifRecorder
	done := make(chan int, 2)
	for i := 0; i < 2; i++ {
		i := i
		hr := verifC18FSRequest(reqs[i])
		together[i] = newVerifRecorder()
		go func() {
			h.ServeHTTP(together[i], hr)
			done <- i
		}()
	}
	ok := vrt.Terminates(func() {
		<-done
		<-done
	})
	vrt.Assert(ok, "both requests are answered")
	if !ok {
		return
	}
	for i := range reqs {
		a, t := alone[i], together[i]
		mm := reqs[i].method
		vrt.Assert(t.code == a.code, mm+": same status as when served alone")
		for _, k := range []string{"Etag", "Content-Type", "Content-Length", "Last-Modified", "Allow", "Dav", "Location"} {
			vrt.Assert(strings.Join(t.hdr[k], "|") == strings.Join(a.hdr[k], "|"), mm+": same "+k+" header as when served alone")
		}
		if mm != "PROPFIND" {
			vrt.Assert(strings.Join(t.parts, "") == strings.Join(a.parts, ""), mm+": same body as when served alone")
		}
		vrt.Assert(verifC18FSCalls(m, reqs[i].path) == aloneCalls[i], mm+": same file-system calls as when served alone")
	}
	vrt.Assert(vrt.Races() == "", "no unsynchronised conflicting accesses: "+vrt.Races())
	vrt.Reach("both-answered")
}
