//go:build verif

package webdav

import (
	"context"
	"net/http"

	"github.com/emersion/go-webdav/internal"
	vrt "github.com/emersion/go-webdav/internal/zz_verifrt"
)

type verifHandlerFunc func(w http.ResponseWriter, r *http.Request)

func (f verifHandlerFunc) ServeHTTP(w http.ResponseWriter, r *http.Request) { f(w, r) }

// VerifH_C12_CurrentUserPrincipal: the first step of the discovery chain:
// FindCurrentUserPrincipal returns exactly the principal path the server
// announces (any string), for any endpoint spelling.
func VerifH_C12_CurrentUserPrincipal() {
	internal.VerifResetWire()
	principal := "/" + vrt.Text("principal")
	opts := &ServePrincipalOptions{CurrentUserPrincipalPath: principal}
	lb := &internal.VerifLoopback{Handler: verifHandlerFunc(func(w http.ResponseWriter, r *http.Request) { ServePrincipal(w, r, opts) })}
	endpoints := []string{"/", "/dav/", "/dav"}
	ep := endpoints[vrt.Choose("endpoint", len(endpoints))]
	var c *Client
	if vrt.Symbolic() {
		c = &Client{ic: internal.VerifNewClient(lb, ep)}
	} else {
		var err error
		c, err = NewClient(lb, "http://dav.example"+ep)
		if err != nil {
			panic(err)
		}
	}
	got, err := c.FindCurrentUserPrincipal(context.Background())
	vrt.Assert(err == nil && got == principal, "FindCurrentUserPrincipal returns exactly the announced principal path")
	vrt.Reach("current-user-principal")
}
