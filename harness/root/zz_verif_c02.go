//go:build verif

package webdav

import (
	"encoding/xml"
	"strings"

	"github.com/emersion/go-webdav/internal"
	vrt "github.com/emersion/go-webdav/internal/zz_verifrt"
)

// VerifH_C02_Unchanged: whenever the answer is 4xx/5xx the tree (names,
// kinds, contents) is exactly what it was. Includes PUT bodies that break
// off after any number of bytes and PUT/DELETE with conditional headers.
func VerifH_C02_Unchanged() {
	verifWantCopyFault = true
	run := runStep(true, true)
	verifWantCopyFault = false
	defer verifCleanup()
	req := run.req
	if run.copyFault {
		vrt.Assert(run.rec.code >= 400, "a COPY whose source cannot be read reports failure")
	}
	if run.rec.code >= 400 && run.copyFault {
		// the copy broke off after the old destination had been removed
		vrt.AssertKnown(run.after.equal(run.before) && len(run.extra) == 0, "COPY: a request answered 4xx/5xx leaves the tree exactly as it was",
			"C02-copy-failure-after-destination-removed", true)
		vrt.Reach("C02/COPY/source-unreadable")
	} else if run.rec.code >= 400 {
		m := req.method
		vrt.Assert(len(run.extra) == 0, m+": a failed request leaves nothing behind outside the addressed resources")
		putBroken := m == "PUT" && req.bodyFails >= 0 && run.before.kind[req.pi] == kFile
		vrt.AssertKnown(run.after.equal(run.before), m+": a request answered 4xx/5xx leaves the tree exactly as it was",
			"C02-put-upload-failure-destroys-file", putBroken)
		vrt.Reach("C02/" + m + "/failed")
	} else {
		vrt.Reach("C02/" + req.method + "/succeeded")
	}
}

// VerifH_C17_NoDisclosure: no response header or body contains the host
// path of the served directory.
func VerifH_C17_NoDisclosure() {
	verifWantOpenFault = true
	run := runStep(true, false)
	verifWantOpenFault = false
	defer verifCleanup()
	m := run.req.method
	body := run.rec.body()
	vrt.Assert(!strings.Contains(body, run.root), m+": response body discloses the host path of the served directory")
	for _, vals := range run.rec.hdr {
		for _, v := range vals {
			vrt.Assert(!strings.Contains(v, run.root), m+": response header discloses the host path of the served directory")
		}
	}
	if run.ms != nil {
		for i := range run.ms.Responses {
			for _, h := range run.ms.Responses[i].Hrefs {
				vrt.Assert(!strings.Contains(h.Path, run.root), m+": multi-status href discloses the host path")
			}
			vrt.Assert(!strings.Contains(run.ms.Responses[i].ResponseDescription, run.root), m+": response description discloses the host path")
		}
	}
	vrt.Reach("C17/" + m)
}

// VerifH_C04_Effect: PUT and DELETE with If-Match / If-None-Match on the
// file server: carried out iff the preconditions hold against the current
// tag, otherwise 412 (400 for a malformed tag against an existing resource)
// and nothing changes.
func VerifH_C04_Effect() {
	verifOnlyMethods = []string{"PUT", "DELETE"}
	defer func() { verifOnlyMethods = nil }()
	run := runStep(false, true)
	defer verifCleanup()
	req := run.req
	// a DELETE refused for its Depth header (400, C01) says nothing about
	// the preconditions
	vrt.Assume(!(req.method == "DELETE" && req.hasDepth && req.depth != "infinity"))
	exists := run.before.kind[req.pi] != kAbsent
	cur := ""
	if exists {
		// the tag a client saw before the request (what symConditional offered as "current")
		for _, h := range []string{req.ifMatch, req.ifNoneMatch} {
			_ = h
		}
	}
	_ = cur
	eval := func(isIfMatch bool, val string, form int) (holds bool, malformed bool) {
		// form: 1 "*", 2 current tag, 3 stale, 4 not quoted, 5 empty quoted
		if !exists {
			return !isIfMatch, false
		}
		switch form {
		case 1:
			return isIfMatch, false
		case 2:
			return isIfMatch, false
		case 3, 5:
			return !isIfMatch, false
		}
		return false, true
	}
	imForm, inmForm := verifForm(req.ifMatch), verifForm(req.ifNoneMatch)
	anyFailed, anyMalformed := false, false
	if req.ifMatch != "" {
		h, bad := eval(true, req.ifMatch, imForm)
		if bad {
			anyMalformed = true
		} else if !h {
			anyFailed = true
		}
	}
	if req.ifNoneMatch != "" {
		h, bad := eval(false, req.ifNoneMatch, inmForm)
		if bad {
			anyMalformed = true
		} else if !h {
			anyFailed = true
		}
	}
	code := run.rec.code
	m := req.method
	if anyFailed || anyMalformed {
		vrt.Assert(code == 412 || code == 400 || code == 404 || code == 405 || code == 409, m+": a failed precondition is answered 412 (400 malformed), never carried out")
		if !anyMalformed && exists && run.before.kind[req.pi] == kFile {
			vrt.Assert(code == 412, m+": precondition failure is 412")
		}
		if !anyFailed && run.before.kind[req.pi] == kFile {
			vrt.Assert(code == 400, m+": malformed tag against an existing resource is 400")
		}
		vrt.Assert(run.after.equal(run.before), m+": a request with a failed precondition changes nothing")
		vrt.Reach("C04/" + m + "/refused")
		return
	}
	// preconditions hold: the request behaves exactly like the unconditional one
	checkStep(run, "C04")
}

// VerifH_C04_Tags: the entity tag a resource is announced with is one and
// the same string in the answers to PUT, GET, HEAD and PROPFIND while the
// resource stays unmodified: the first request is any GET, HEAD, PUT or
// PROPFIND on any tree (checked against Stat inside checkStep), followed by
// a HEAD, a GET and a PROPFIND Depth 0 of the same resource, whose tags must
// equal the first answer's.
func VerifH_C04_Tags() {
	verifOnlyMethods = []string{"GET", "HEAD", "PUT", "PROPFIND"}
	defer func() { verifOnlyMethods = nil }()
	run := runStep(false, false)
	defer verifCleanup()
	checkStep(run, "C04tags")
	req := run.req
	if run.rec.code >= 300 || run.after.kind[req.pi] != kFile {
		return
	}
	first := run.rec.hdr.Get("ETag")
	if req.method == "PROPFIND" {
		first = ""
		for k := range run.ms.Responses {
			resp := &run.ms.Responses[k]
			if len(resp.Hrefs) == 1 && strings.TrimSuffix(resp.Hrefs[0].Path, "/") == strings.TrimSuffix(req.path, "/") {
				var ge internal.GetETag
				if err := resp.DecodeProp(&ge); err == nil {
					first = internal.ETag(ge.ETag).String()
				}
			}
		}
	}
	vrt.Assert(first != "", req.method+": a file is announced with an entity tag")
	h := &Handler{FileSystem: LocalFileSystem(run.root)}
	for _, m := range []string{"HEAD", "GET", "PROPFIND"} {
		internal.VerifResetWire()
		r2 := &verifReq{method: m, path: req.path, pi: req.pi, bodyFails: -1}
		if m == "PROPFIND" {
			r2.depth, r2.hasDepth = "0", true
		}
		rec := newVerifRecorder()
		h.ServeHTTP(rec, r2.httpRequest(run.t))
		if rec.code == 0 {
			rec.code = 200
		}
		tag := rec.hdr.Get("ETag")
		if m == "PROPFIND" {
			tag = ""
			var ms *internal.MultiStatus
			if vrt.Symbolic() {
				ms = internal.VerifServed
			} else if rec.code == 207 {
				ms = &internal.MultiStatus{}
				if err := xml.Unmarshal([]byte(rec.body()), ms); err != nil {
					vrt.Fail("207 body is not a readable multi-status: " + err.Error())
				}
			}
			if ms != nil && len(ms.Responses) == 1 {
				var ge internal.GetETag
				if err := ms.Responses[0].DecodeProp(&ge); err == nil {
					tag = internal.ETag(ge.ETag).String()
				}
			}
		}
		vrt.Assert(tag == first, "the tag announced by "+m+" equals the one announced by the earlier "+req.method)
		// and it is accepted back: a conditional request carrying it proceeds
		ok, err := ConditionalMatch(tag).MatchETag(mustUnquote(tag))
		vrt.Assert(ok && err == nil, "an announced tag is accepted back in a conditional header")
	}
	vrt.Reach("C04tags/" + req.method + "/agree")
}

func mustUnquote(tag string) string {
	var e internal.ETag
	if err := e.UnmarshalText([]byte(tag)); err != nil {
		vrt.Fail("announced tag is not a quoted string: " + tag)
	}
	return string(e)
}

func verifForm(v string) int {
	switch {
	case v == "":
		return 0
	case v == "*":
		return 1
	case v == "\"stale-tag\"":
		return 3
	case v == "not-quoted":
		return 4
	case v == "\"\"":
		return 5
	}
	return 2
}
