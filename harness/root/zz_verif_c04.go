//go:build verif

package webdav

import (
	"context"
	"encoding/xml"
	"fmt"
	"io"
	"io/ioutil"
	"net/http"
	"net/url"

	"github.com/emersion/go-webdav/internal"
	vrt "github.com/emersion/go-webdav/internal/zz_verifrt"
)

func verifHTTPCode(err error) int {
	if err == nil {
		return 0
	}
	if he, ok := err.(*internal.HTTPError); ok {
		return he.Code
	}
	return -1
}

// ---- uninterpreted unquoter (stub for ConditionalMatch.ETag) --------------
//
// The stub returns an arbitrary (string, ok) per distinct header value: the
// truth table is then checked for every possible behaviour of the unquoter.

var verifUnqVals []ConditionalMatch
var verifUnqRes []string
var verifUnqOK []bool

func verifStubCMETag(val ConditionalMatch) (string, error) {
	for i, v := range verifUnqVals {
		if v == val {
			if verifUnqOK[i] {
				return verifUnqRes[i], nil
			}
			return "", fmt.Errorf("verif: malformed entity tag")
		}
	}
	verifUnqVals = append(verifUnqVals, val)
	verifUnqRes = append(verifUnqRes, vrt.Str("unquoted"))
	verifUnqOK = append(verifUnqOK, vrt.Bool("unquote-ok"))
	return verifStubCMETag(val)
}

// refPrecondition evaluates one conditional header against the statement's
// table: returns (holds, malformed-with-existing-resource).
func refPrecondition(isIfMatch bool, val ConditionalMatch, exists bool, etag string, unq string, unqOK bool) (bool, bool) {
	if !exists {
		// If-Match needs an existing resource; If-None-Match holds when absent
		return !isIfMatch, false
	}
	if val == "*" {
		return isIfMatch, false
	}
	if !unqOK {
		return false, true
	}
	equal := unq == etag
	if isIfMatch {
		return equal, false
	}
	return !equal, false
}

func checkTruthTable(fi *FileInfo, im, inm ConditionalMatch, imUnq string, imOK bool, inmUnq string, inmOK bool) {
	exists := fi != nil
	etag := ""
	if exists {
		etag = fi.ETag
	}
	err := checkConditionalMatches(fi, im, inm)
	code := verifHTTPCode(err)

	anyFailed, anyMalformed := false, false
	if im != "" {
		holds, bad := refPrecondition(true, im, exists, etag, imUnq, imOK)
		if bad {
			anyMalformed = true
		} else if !holds {
			anyFailed = true
		}
	}
	if inm != "" {
		holds, bad := refPrecondition(false, inm, exists, etag, inmUnq, inmOK)
		if bad {
			anyMalformed = true
		} else if !holds {
			anyFailed = true
		}
	}
	carriedOut := !anyFailed && !anyMalformed
	vrt.Assert((err == nil) == carriedOut, "operation proceeds iff every precondition holds")
	if err != nil {
		vrt.Assert(code == 412 || code == 400, "failed precondition is answered 412 (or 400 for a malformed tag)")
		if !anyMalformed {
			vrt.Assert(code == 412, "precondition failure without a malformed tag is 412")
		}
		if !anyFailed {
			vrt.Assert(code == 400, "malformed tag against an existing resource is 400")
		}
		vrt.Reach("refused")
	} else {
		vrt.Reach("carried-out")
	}
}

// VerifH_C04_TruthTable: checkConditionalMatches for resource absent/present,
// current tag / If-Match / If-None-Match arbitrary strings of any length
// (opaque), the unquoter an arbitrary function of the header value.
func VerifH_C04_TruthTable() {
	verifUnqVals, verifUnqRes, verifUnqOK = nil, nil, nil
	var fi *FileInfo
	if vrt.Bool("exists") {
		etag := vrt.Str("etag")
		vrt.Assume(etag != "")
		fi = &FileInfo{Path: "/f", ETag: etag}
	}
	im := ConditionalMatch(vrt.Str("if-match"))
	inm := ConditionalMatch(vrt.Str("if-none-match"))
	// fix the unquoter's behaviour on both values up front
	imUnq, imErr := verifStubCMETag(im)
	inmUnq, inmErr := verifStubCMETag(inm)
	if !vrt.Symbolic() {
		// a native replay runs the real unquoter inside the implementation,
		// so the reference has to use it as well
		imUnq, imErr = im.ETag()
		inmUnq, inmErr = inm.ETag()
	}
	checkTruthTable(fi, im, inm, imUnq, imErr == nil, inmUnq, inmErr == nil)

	// the public helper
	tag := vrt.Str("some-tag")
	got, err := im.MatchETag(tag)
	if tag == "" {
		vrt.Assert(!got && err == nil, "MatchETag against no resource is false")
	} else if im == "*" {
		vrt.Assert(got && err == nil, "MatchETag: wildcard matches any existing resource")
	} else if imErr != nil {
		vrt.Assert(!got && err != nil, "MatchETag: malformed tag is an error, not a match")
	} else {
		vrt.Assert(err == nil && got == (imUnq == tag), "MatchETag true exactly for an equal tag")
	}
	vrt.Assert(im.IsSet() == (im != "") && im.IsWildcard() == (im == "*"), "IsSet / IsWildcard")
}

// VerifH_C04_RealUnquote: same table with the real strconv.Unquote executed
// from its SSA on exploded header values (every byte value, length <= n);
// the reference unquoter is "strip the surrounding double quotes" for values
// that are a plain quoted string without escapes, which is what a tag
// obtained from the server looks like after HTTP quoting of a plain tag.
func VerifH_C04_RealUnquote() {
	n := vrt.Param("hdrlen", 3)
	etag := vrt.StrN("etag", 1+vrt.Choose("etaglen", vrt.Param("etaglen", 1)))
	var fi *FileInfo
	if vrt.Bool("exists") {
		fi = &FileInfo{Path: "/f", ETag: etag}
	}
	simple := func(tag string) ConditionalMatch {
		switch vrt.Choose(tag+"-form", 3) {
		case 0:
			return ""
		case 1:
			return "*"
		}
		// the tag the server announced for the resource
		return ConditionalMatch(internal.ETag(etag).String())
	}
	// the announced tag with two arbitrary bytes in front of it and / or one
	// (thorough: up to two) behind it (weak-validator prefixes, list separators, blanks, ...): not a
	// quoted string as soon as it does not begin or does not end with a quote
	decorated := func(tag string) ConditionalMatch {
		pre := vrt.StrN(tag+"-prefix", 2*vrt.Choose(tag+"-prefix-2", 2))
		suf := vrt.StrN(tag+"-suffix", vrt.Choose(tag+"-suffix-1", 1+vrt.Param("decosuffix", 1)))
		vrt.Assume((len(pre) > 0 && pre[0] != '"') || (len(suf) > 0 && suf[len(suf)-1] != '"'))
		return ConditionalMatch(pre + internal.ETag(etag).String() + suf)
	}
	var im, inm ConditionalMatch
	imBad, inmBad := false, false
	// exactly one of the two headers is an arbitrary byte string
	switch vrt.Choose("arbitrary-header", 4) {
	case 0:
		im = ConditionalMatch(vrt.StrN("if-match", 1+vrt.Choose("if-match-len", n)))
		inm = simple("if-none-match")
	case 1:
		im = simple("if-match")
		inm = ConditionalMatch(vrt.StrN("if-none-match", 1+vrt.Choose("if-none-match-len", n)))
	case 2:
		im, imBad = decorated("if-match"), true
		inm = simple("if-none-match")
	default:
		im = simple("if-match")
		inm, inmBad = decorated("if-none-match"), true
	}
	imUnq, imErr := im.ETag()
	inmUnq, inmErr := inm.ETag()
	if imBad {
		vrt.Assert(imErr != nil, "a header value that does not begin and end with a quote is not an entity tag")
	}
	if inmBad {
		vrt.Assert(inmErr != nil, "a header value that does not begin and end with a quote is not an entity tag")
	}
	checkTruthTable(fi, im, inm, imUnq, imErr == nil && !imBad, inmUnq, inmErr == nil && !inmBad)
	// any tag obtained from the server is accepted back and compares equal
	back, err := ConditionalMatch(internal.ETag(etag).String()).ETag()
	vrt.Assert(err == nil && back == etag, "a tag announced by the server is accepted back in a conditional header")
}

// verifTagFS: a backend whose entity tags are arbitrary strings.
type verifTagFS struct {
	verifMemFS
	tag string
}

func (m *verifTagFS) Create(ctx context.Context, name string, body io.ReadCloser, opts *CreateOptions) (*FileInfo, bool, error) {
	b, err := ioutil.ReadAll(body)
	if err != nil {
		return nil, false, err
	}
	return &FileInfo{Path: name, Size: int64(len(b)), ETag: m.tag}, false, nil
}

// VerifH_C04_TagsAnyBackend: over a backend whose entity tag is any byte
// string (1..etaglen bytes, every byte value; the real strconv quoting code
// runs on it), GET, HEAD and PUT announce one and the same header text,
// PROPFIND reports the same tag, and the announced text is accepted back by
// the conditional-header helpers as exactly the backend's tag.
func VerifH_C04_TagsAnyBackend() {
	internal.VerifResetWire()
	tag := vrt.StrN("etag", 1+vrt.Choose("etag-len", vrt.Param("etaglen", 2)))
	fs := &verifTagFS{tag: tag}
	fs.content = map[string]string{"/f": "x"}
	fs.infos = []FileInfo{{Path: "/f", Size: 1, ETag: tag}}
	h := &Handler{FileSystem: fs}
	var announced []string
	methods := []string{"GET", "HEAD", "PUT"}
	for _, m := range methods {
		rec := newVerifRecorder()
		req := &http.Request{Method: m, URL: &url.URL{Path: "/f"}, Header: http.Header{}, Host: "dav.example"}
		req.Body = http.NoBody
		if m == "PUT" {
			req.Body = &verifStringReader{s: "x"}
		}
		h.ServeHTTP(rec, req)
		vrt.Assert(rec.code < 300, m+" on an existing file succeeds")
		announced = append(announced, rec.hdr.Get("ETag"))
	}
	for i, m := range methods {
		vrt.Assert(announced[i] == announced[0], m+" announces the same entity tag text as GET")
		back, err := ConditionalMatch(announced[i]).ETag()
		vrt.Assert(err == nil && back == tag, "the tag announced by "+m+" is accepted back as the backend's tag")
		ok, err := ConditionalMatch(announced[i]).MatchETag(tag)
		vrt.Assert(ok && err == nil, "the tag announced by "+m+" matches the resource in a conditional header")
	}
	// PROPFIND Depth 0
	rec := newVerifRecorder()
	req := &http.Request{Method: "PROPFIND", URL: &url.URL{Path: "/f"}, Header: http.Header{"Depth": []string{"0"}}, Host: "dav.example", Body: http.NoBody}
	h.ServeHTTP(rec, req)
	var ms *internal.MultiStatus
	if vrt.Symbolic() {
		ms = internal.VerifServed
	} else if rec.code == 207 {
		ms = &internal.MultiStatus{}
		if err := xml.Unmarshal([]byte(rec.body()), ms); err != nil {
			vrt.Fail("207 body is not a readable multi-status: " + err.Error())
		}
	}
	vrt.Assert(ms != nil && len(ms.Responses) == 1, "PROPFIND answers with one response")
	if ms != nil && len(ms.Responses) == 1 {
		var ge internal.GetETag
		err := ms.Responses[0].DecodeProp(&ge)
		vrt.Assert(err == nil && string(ge.ETag) == tag, "PROPFIND reports the same entity tag")
	}
	vrt.Reach("tags-any-backend")
}
