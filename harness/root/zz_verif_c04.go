//go:build verif

package webdav

import (
	"fmt"

	"github.com/emersion/go-webdav/internal"
	vrt "github.com/emersion/go-webdav/internal/zz_verifrt"
)

func verifHTTPCode(err error) int {
	if err == nil {
		return 0
	}
	if he, ok := err.(*internal.HTTPError); ok {
		return he.Code
	}
	return -1
}

// ---- uninterpreted unquoter (stub for ConditionalMatch.ETag) --------------
//
// The stub returns an arbitrary (string, ok) per distinct header value: the
// truth table is then checked for every possible behaviour of the unquoter.

var verifUnqVals []ConditionalMatch
var verifUnqRes []string
var verifUnqOK []bool

func verifStubCMETag(val ConditionalMatch) (string, error) {
	for i, v := range verifUnqVals {
		if v == val {
			if verifUnqOK[i] {
				return verifUnqRes[i], nil
			}
			return "", fmt.Errorf("verif: malformed entity tag")
		}
	}
	verifUnqVals = append(verifUnqVals, val)
	verifUnqRes = append(verifUnqRes, vrt.Str("unquoted"))
	verifUnqOK = append(verifUnqOK, vrt.Bool("unquote-ok"))
	return verifStubCMETag(val)
}

// refPrecondition evaluates one conditional header against the statement's
// table: returns (holds, malformed-with-existing-resource).
func refPrecondition(isIfMatch bool, val ConditionalMatch, exists bool, etag string, unq string, unqOK bool) (bool, bool) {
	if !exists {
		// If-Match needs an existing resource; If-None-Match holds when absent
		return !isIfMatch, false
	}
	if val == "*" {
		return isIfMatch, false
	}
	if !unqOK {
		return false, true
	}
	equal := unq == etag
	if isIfMatch {
		return equal, false
	}
	return !equal, false
}

func checkTruthTable(fi *FileInfo, im, inm ConditionalMatch, imUnq string, imOK bool, inmUnq string, inmOK bool) {
	exists := fi != nil
	etag := ""
	if exists {
		etag = fi.ETag
	}
	err := checkConditionalMatches(fi, im, inm)
	code := verifHTTPCode(err)

	anyFailed, anyMalformed := false, false
	if im != "" {
		holds, bad := refPrecondition(true, im, exists, etag, imUnq, imOK)
		if bad {
			anyMalformed = true
		} else if !holds {
			anyFailed = true
		}
	}
	if inm != "" {
		holds, bad := refPrecondition(false, inm, exists, etag, inmUnq, inmOK)
		if bad {
			anyMalformed = true
		} else if !holds {
			anyFailed = true
		}
	}
	carriedOut := !anyFailed && !anyMalformed
	vrt.Assert((err == nil) == carriedOut, "operation proceeds iff every precondition holds")
	if err != nil {
		vrt.Assert(code == 412 || code == 400, "failed precondition is answered 412 (or 400 for a malformed tag)")
		if !anyMalformed {
			vrt.Assert(code == 412, "precondition failure without a malformed tag is 412")
		}
		if !anyFailed {
			vrt.Assert(code == 400, "malformed tag against an existing resource is 400")
		}
		vrt.Reach("refused")
	} else {
		vrt.Reach("carried-out")
	}
}

// VerifH_C04_TruthTable: checkConditionalMatches for resource absent/present,
// current tag / If-Match / If-None-Match arbitrary strings of any length
// (opaque), the unquoter an arbitrary function of the header value.
func VerifH_C04_TruthTable() {
	verifUnqVals, verifUnqRes, verifUnqOK = nil, nil, nil
	var fi *FileInfo
	if vrt.Bool("exists") {
		etag := vrt.Str("etag")
		vrt.Assume(etag != "")
		fi = &FileInfo{Path: "/f", ETag: etag}
	}
	im := ConditionalMatch(vrt.Str("if-match"))
	inm := ConditionalMatch(vrt.Str("if-none-match"))
	// fix the unquoter's behaviour on both values up front
	imUnq, imErr := verifStubCMETag(im)
	inmUnq, inmErr := verifStubCMETag(inm)
	if !vrt.Symbolic() {
		// a native replay runs the real unquoter inside the implementation,
		// so the reference has to use it as well
		imUnq, imErr = im.ETag()
		inmUnq, inmErr = inm.ETag()
	}
	checkTruthTable(fi, im, inm, imUnq, imErr == nil, inmUnq, inmErr == nil)

	// the public helper
	tag := vrt.Str("some-tag")
	got, err := im.MatchETag(tag)
	if tag == "" {
		vrt.Assert(!got && err == nil, "MatchETag against no resource is false")
	} else if im == "*" {
		vrt.Assert(got && err == nil, "MatchETag: wildcard matches any existing resource")
	} else if imErr != nil {
		vrt.Assert(!got && err != nil, "MatchETag: malformed tag is an error, not a match")
	} else {
		vrt.Assert(err == nil && got == (imUnq == tag), "MatchETag true exactly for an equal tag")
	}
	vrt.Assert(im.IsSet() == (im != "") && im.IsWildcard() == (im == "*"), "IsSet / IsWildcard")
}

// VerifH_C04_RealUnquote: same table with the real strconv.Unquote executed
// from its SSA on exploded header values (every byte value, length <= n);
// the reference unquoter is "strip the surrounding double quotes" for values
// that are a plain quoted string without escapes, which is what a tag
// obtained from the server looks like after HTTP quoting of a plain tag.
func VerifH_C04_RealUnquote() {
	n := vrt.Param("hdrlen", 3)
	etag := vrt.StrN("etag", 1+vrt.Choose("etaglen", vrt.Param("etaglen", 1)))
	var fi *FileInfo
	if vrt.Bool("exists") {
		fi = &FileInfo{Path: "/f", ETag: etag}
	}
	simple := func(tag string) ConditionalMatch {
		switch vrt.Choose(tag+"-form", 3) {
		case 0:
			return ""
		case 1:
			return "*"
		}
		// the tag the server announced for the resource
		return ConditionalMatch(internal.ETag(etag).String())
	}
	var im, inm ConditionalMatch
	// exactly one of the two headers is an arbitrary byte string
	if vrt.Choose("arbitrary-header", 2) == 0 {
		im = ConditionalMatch(vrt.StrN("if-match", 1+vrt.Choose("if-match-len", n)))
		inm = simple("if-none-match")
	} else {
		im = simple("if-match")
		inm = ConditionalMatch(vrt.StrN("if-none-match", 1+vrt.Choose("if-none-match-len", n)))
	}
	imUnq, imErr := im.ETag()
	inmUnq, inmErr := inm.ETag()
	checkTruthTable(fi, im, inm, imUnq, imErr == nil, inmUnq, inmErr == nil)
	// any tag obtained from the server is accepted back and compares equal
	back, err := ConditionalMatch(internal.ETag(etag).String()).ETag()
	vrt.Assert(err == nil && back == etag, "a tag announced by the server is accepted back in a conditional header")
}
