//go:build verif

package webdav

import (
	"io"
	"io/ioutil"
	"net"
	"net/http"
	"os"
	"path/filepath"
	"strings"
	"syscall"
	"time"

	vrt "github.com/emersion/go-webdav/internal/zz_verifrt"
)

// ---------------------------------------------------------------------------
// A model of the operating-system file API over a fixed universe of paths.
// In the symbolic run the functions named verifStub* replace os.Stat,
// os.OpenFile, os.Mkdir, os.Remove, os.RemoveAll, os.Rename, (*os.File).Close,
// (*os.File).Readdirnames, io.Copy and http.ServeContent; natively the real
// operating system and net/http run on a temporary directory that is
// materialised from the same tree.
//
// node kinds: 0 absent, 1 file, 2 collection
// content ids of files: 0 and 1 are the two initial / uploadable contents,
// 2 is the empty file (just created or truncated), 3 a partially written one.

const (
	kAbsent = 0
	kFile   = 1
	kDir    = 2
)

const verifModelRoot = "/srv/dav-root"

var verifUniverseQuick = []string{"/", "/a", "/b", "/a/a", "/a/b"}
var verifUniverseDeep = []string{"/", "/a", "/b", "/a/a", "/a/b", "/a/a/a"}
var verifUniverseThorough = []string{"/", "/a", "/b", "/a/a", "/a/b", "/b/a", "/b/b", "/a/a/a"}

type verifTree struct {
	paths   []string
	kind    []int
	content []int
}

func (t *verifTree) copy() *verifTree {
	c := &verifTree{paths: t.paths, kind: make([]int, len(t.kind)), content: make([]int, len(t.content))}
	copy(c.kind, t.kind)
	copy(c.content, t.content)
	return c
}

func (t *verifTree) index(p string) int {
	for i, q := range t.paths {
		if q == p {
			return i
		}
	}
	return -1
}

func verifParentPath(p string) string {
	if p == "/" {
		return ""
	}
	i := strings.LastIndex(p, "/")
	if i == 0 {
		return "/"
	}
	return p[:i]
}

func (t *verifTree) parent(i int) int {
	pp := verifParentPath(t.paths[i])
	if pp == "" {
		return -1
	}
	return t.index(pp)
}

// isUnder: path q lies strictly below path p.
func verifIsUnder(q, p string) bool {
	if p == "/" {
		return q != "/"
	}
	return strings.HasPrefix(q, p+"/")
}

func (t *verifTree) equal(o *verifTree) bool {
	for i := range t.kind {
		if t.kind[i] != o.kind[i] {
			return false
		}
		if t.kind[i] == kFile && t.content[i] != o.content[i] {
			return false
		}
	}
	return true
}

func verifContentBytes(id int) string {
	switch id {
	case 0:
		return "c0!"
	case 1:
		return "c1!!!"
	case 2:
		return ""
	}
	return "p"
}

func verifContentID(b string) int {
	switch b {
	case "c0!":
		return 0
	case "c1!!!":
		return 1
	case "":
		return 2
	}
	return 3
}

// symTree: an arbitrary valid tree over the universe: the root is a
// collection, a node exists only if its parent is a collection.
func symTree(paths []string) *verifTree {
	t := &verifTree{paths: paths, kind: make([]int, len(paths)), content: make([]int, len(paths))}
	t.kind[0] = kDir
	for i := 1; i < len(paths); i++ {
		k := vrt.IntRange("kind"+paths[i], 0, 2)
		pi := t.parent(i)
		vrt.Assume(k == kAbsent || t.kind[pi] == kDir)
		t.kind[i] = k
		t.content[i] = vrt.IntRange("content"+paths[i], 0, 1)
	}
	return t
}

// ---------------------------------------------------------------------------
// model state (symbolic run)

var verifOpenFault bool
var verifCopyReadFault bool

// verifWantCopyFault: the exploration includes a COPY whose source cannot be read.
var verifWantCopyFault bool
var verifFS *verifTree
var verifHandles map[*os.File]int

// verifHandleKeeps: handles opened for writing without O_TRUNC on a file that
// already had content: what is written lands on top of the old bytes.
var verifHandleKeeps map[*os.File]bool
var verifOSCalls []string // every path handed to the operating system

// verifScratch: directories created by os.MkdirTemp (names outside the
// universe). Only their creation and removal is modelled: any other use of a
// path below one is outside the bound. What is left of them after the request
// shows up as an entry outside the universe.
var verifScratch []string

func verifStubMkdirTemp(dir, pattern string) (string, error) {
	i := verifLocalIndex(dir)
	if e := verifParentErr(i); e != 0 {
		return "", &os.PathError{Op: "mkdir", Path: dir, Err: e}
	}
	switch verifFS.kind[i] {
	case kAbsent:
		return "", &os.PathError{Op: "mkdir", Path: dir, Err: syscall.ENOENT}
	case kFile:
		return "", &os.PathError{Op: "mkdir", Path: dir, Err: syscall.ENOTDIR}
	}
	name := strings.TrimSuffix(dir, "/") + "/" + strings.Replace(pattern, "*", "", -1) + "verif" + string(rune('0'+len(verifScratch)))
	verifScratch = append(verifScratch, name)
	return name, nil
}

// verifDropScratch removes a scratch directory; false if name is none.
func verifDropScratch(name string) bool {
	for i, s := range verifScratch {
		if s == name {
			verifScratch = append(verifScratch[:i:i], verifScratch[i+1:]...)
			return true
		}
	}
	return false
}

func verifLocalIndex(name string) int {
	verifOSCalls = append(verifOSCalls, name)
	if name == verifModelRoot {
		return 0
	}
	if !strings.HasPrefix(name, verifModelRoot+"/") {
		vrt.Fail("operating system touched outside the served directory: " + name)
		vrt.Assume(false)
	}
	i := verifFS.index(name[len(verifModelRoot):])
	if i < 0 {
		// a path outside the modelled universe: this (tree, request) pair is
		// outside the bound of the check
		vrt.Assume(false)
	}
	return i
}

// walkErr: the error of resolving the parent chain of node i:
// 0 fine, ENOENT a missing ancestor, ENOTDIR an ancestor that is a file.
func verifParentErr(i int) syscall.Errno {
	pi := verifFS.parent(i)
	if pi < 0 {
		return 0
	}
	if e := verifParentErr(pi); e != 0 {
		return e
	}
	switch verifFS.kind[pi] {
	case kAbsent:
		return syscall.ENOENT
	case kFile:
		return syscall.ENOTDIR
	}
	return 0
}

type verifFileInfo struct {
	name    string
	kind    int
	content int
}

func verifSize(content int) int64 { return int64(len(verifContentBytes(content))) }

func verifModTime(kind, content int) time.Time {
	if kind == kDir {
		return time.Date(2020, 1, 1, 0, 0, 30, 0, time.UTC)
	}
	return time.Date(2020, 1, 1, 0, 0, content, 0, time.UTC)
}

func (fi *verifFileInfo) Name() string { return fi.name }
func (fi *verifFileInfo) Size() int64 {
	if fi.kind == kDir {
		return 4096
	}
	return verifSize(fi.content)
}
func (fi *verifFileInfo) Mode() os.FileMode {
	if fi.kind == kDir {
		return os.ModeDir | 0755
	}
	return 0644
}
func (fi *verifFileInfo) ModTime() time.Time { return verifModTime(fi.kind, fi.content) }
func (fi *verifFileInfo) IsDir() bool        { return fi.kind == kDir }
func (fi *verifFileInfo) Sys() interface{}   { return nil }

func verifStubStat(name string) (os.FileInfo, error) {
	i := verifLocalIndex(name)
	if e := verifParentErr(i); e != 0 {
		return nil, &os.PathError{Op: "stat", Path: name, Err: e}
	}
	if verifFS.kind[i] == kAbsent {
		return nil, &os.PathError{Op: "stat", Path: name, Err: syscall.ENOENT}
	}
	return &verifFileInfo{name: filepath.Base(name), kind: verifConc(verifFS.kind[i]), content: verifConc(verifFS.content[i])}, nil
}

// verifConc makes a small symbolic integer concrete by case analysis, so
// that sizes, times and tags derived from it are concrete values.
func verifConc(v int) int {
	switch v {
	case 0:
		return 0
	case 1:
		return 1
	case 2:
		return 2
	}
	return 3
}

func verifStubLstat(name string) (os.FileInfo, error) {
	fi, err := verifStubStat(name)
	if err != nil {
		err.(*os.PathError).Op = "lstat"
	}
	return fi, err
}

func verifStubOpenFile(name string, flag int, perm os.FileMode) (*os.File, error) {
	i := verifLocalIndex(name)
	if e := verifParentErr(i); e != 0 {
		return nil, &os.PathError{Op: "open", Path: name, Err: e}
	}
	writing := flag&(os.O_WRONLY|os.O_RDWR) != 0
	switch verifFS.kind[i] {
	case kAbsent:
		if flag&os.O_CREATE == 0 {
			return nil, &os.PathError{Op: "open", Path: name, Err: syscall.ENOENT}
		}
		verifFS.kind[i] = kFile
		verifFS.content[i] = 2
	case kDir:
		if writing {
			return nil, &os.PathError{Op: "open", Path: name, Err: syscall.EISDIR}
		}
	case kFile:
		if verifOpenFault && !writing {
			// a file that can be stat'ed but not opened (e.g. a socket)
			return nil, &os.PathError{Op: "open", Path: name, Err: syscall.ENXIO}
		}
		if flag&os.O_CREATE != 0 && flag&os.O_EXCL != 0 {
			return nil, &os.PathError{Op: "open", Path: name, Err: syscall.EEXIST}
		}
		keeps := false
		if writing && flag&os.O_TRUNC != 0 {
			verifFS.content[i] = 2
		} else if writing && flag&os.O_APPEND == 0 {
			keeps = true
		}
		f := new(os.File)
		verifHandles[f] = i
		if keeps {
			if verifHandleKeeps == nil {
				verifHandleKeeps = map[*os.File]bool{}
			}
			verifHandleKeeps[f] = true
		}
		return f, nil
	}
	f := new(os.File)
	verifHandles[f] = i
	return f, nil
}

func verifStubFileClose(f *os.File) error {
	if _, ok := verifHandles[f]; !ok {
		return os.ErrClosed
	}
	delete(verifHandles, f)
	return nil
}

func verifStubReaddirnames(f *os.File, n int) ([]string, error) {
	i, ok := verifHandles[f]
	if !ok {
		return nil, os.ErrClosed
	}
	if verifFS.kind[i] != kDir {
		return nil, &os.PathError{Op: "readdirent", Path: verifModelRoot + verifFS.paths[i], Err: syscall.ENOTDIR}
	}
	var names []string
	for j := range verifFS.paths {
		if verifFS.parent(j) == i && verifFS.kind[j] != kAbsent {
			names = append(names, filepath.Base(verifFS.paths[j]))
		}
	}
	return names, nil
}

func verifStubMkdir(name string, perm os.FileMode) error {
	i := verifLocalIndex(name)
	if e := verifParentErr(i); e != 0 {
		return &os.PathError{Op: "mkdir", Path: name, Err: e}
	}
	if verifFS.kind[i] != kAbsent {
		return &os.PathError{Op: "mkdir", Path: name, Err: syscall.EEXIST}
	}
	verifFS.kind[i] = kDir
	return nil
}

func verifHasChildren(i int) bool {
	for j := range verifFS.paths {
		if verifFS.parent(j) == i && verifFS.kind[j] != kAbsent {
			return true
		}
	}
	return false
}

func verifStubRemove(name string) error {
	if verifDropScratch(name) {
		return nil
	}
	i := verifLocalIndex(name)
	if e := verifParentErr(i); e != 0 {
		return &os.PathError{Op: "remove", Path: name, Err: e}
	}
	switch verifFS.kind[i] {
	case kAbsent:
		return &os.PathError{Op: "remove", Path: name, Err: syscall.ENOENT}
	case kDir:
		if verifHasChildren(i) {
			return &os.PathError{Op: "remove", Path: name, Err: syscall.ENOTEMPTY}
		}
	}
	verifFS.kind[i] = kAbsent
	return nil
}

func verifRemoveSubtree(i int) {
	p := verifFS.paths[i]
	for j, q := range verifFS.paths {
		if q == p || verifIsUnder(q, p) {
			verifFS.kind[j] = kAbsent
		}
	}
}

func verifStubRemoveAll(name string) error {
	if verifDropScratch(name) {
		return nil
	}
	i := verifLocalIndex(name)
	if e := verifParentErr(i); e != 0 {
		if e == syscall.ENOENT {
			return nil
		}
		return &os.PathError{Op: "unlinkat", Path: name, Err: e}
	}
	verifRemoveSubtree(i)
	return nil
}

func verifStubRename(oldname, newname string) error {
	oi := verifLocalIndex(oldname)
	ni := verifLocalIndex(newname)
	lerr := func(e syscall.Errno) error {
		return &os.LinkError{Op: "rename", Old: oldname, New: newname, Err: e}
	}
	if e := verifParentErr(oi); e != 0 {
		return lerr(e)
	}
	if verifFS.kind[oi] == kAbsent {
		return lerr(syscall.ENOENT)
	}
	if e := verifParentErr(ni); e != 0 {
		return lerr(e)
	}
	if oi == ni {
		return nil
	}
	op, np := verifFS.paths[oi], verifFS.paths[ni]
	if verifIsUnder(np, op) {
		return lerr(syscall.EINVAL)
	}
	if verifFS.kind[ni] != kAbsent {
		switch {
		case verifFS.kind[oi] == kDir && verifFS.kind[ni] == kFile:
			return lerr(syscall.ENOTDIR)
		case verifFS.kind[oi] == kFile && verifFS.kind[ni] == kDir:
			return lerr(syscall.EISDIR)
		case verifFS.kind[ni] == kDir && verifHasChildren(ni):
			return lerr(syscall.ENOTEMPTY)
		}
		if verifIsUnder(op, np) {
			return lerr(syscall.ENOTEMPTY)
		}
		verifRemoveSubtree(ni)
	}
	// move the subtree
	type moved struct{ to, kind, content int }
	var ms []moved
	for j, q := range verifFS.paths {
		if verifFS.kind[j] == kAbsent {
			continue
		}
		if q == op || verifIsUnder(q, op) {
			target := np + q[len(op):]
			if op == "/" {
				target = np + q
			}
			ti := verifFS.index(target)
			if ti < 0 {
				vrt.Assume(false) // leaves the modelled universe
			}
			ms = append(ms, moved{ti, verifFS.kind[j], verifFS.content[j]})
		}
	}
	verifRemoveSubtree(oi)
	for _, m := range ms {
		verifFS.kind[m.to] = m.kind
		verifFS.content[m.to] = m.content
	}
	return nil
}

// verifBodyReader is the request body: content id, optionally failing after
// some bytes.
type verifBodyReader struct {
	content   int
	failAfter int // -1: never
	pos       int
}

var errVerifBody = io.ErrUnexpectedEOF

func (b *verifBodyReader) Read(p []byte) (int, error) {
	data := verifContentBytes(b.content)
	n := 0
	for n < len(p) {
		if b.failAfter >= 0 && b.pos >= b.failAfter {
			return n, errVerifBody
		}
		if b.pos >= len(data) {
			if n == 0 {
				return 0, io.EOF
			}
			return n, nil
		}
		p[n] = data[b.pos]
		n++
		b.pos++
	}
	return n, nil
}
func (b *verifBodyReader) Close() error { return nil }

func verifStubIOCopy(dst io.Writer, src io.Reader) (int64, error) {
	df, ok := dst.(*os.File)
	if !ok {
		// copying into something that is not a model file (e.g. the response)
		if sf, ok := src.(*os.File); ok {
			i := verifHandles[sf]
			s := verifContentBytes(verifFS.content[i])
			n, err := io.WriteString(dst, s)
			return int64(n), err
		}
		vrt.Unsupported("io.Copy between unexpected endpoints")
		return 0, nil
	}
	di, ok := verifHandles[df]
	if !ok {
		return 0, os.ErrClosed
	}
	switch s := src.(type) {
	case *os.File:
		si, ok := verifHandles[s]
		if !ok {
			return 0, os.ErrClosed
		}
		if verifCopyReadFault {
			// the source opens fine but cannot be read (e.g. a symlink to
			// a directory): the OS reports the failing path
			return 0, &os.PathError{Op: "read", Path: verifModelRoot + verifFS.paths[si], Err: syscall.EISDIR}
		}
		verifFS.content[di] = verifOverwrite(df, verifFS.content[di], verifFS.content[si])
		return verifSize(verifFS.content[si]), nil
	case *verifBodyReader:
		if s.failAfter < 0 {
			verifFS.content[di] = verifOverwrite(df, verifFS.content[di], s.content)
			return verifSize(s.content), nil
		}
		if s.failAfter > 0 {
			verifFS.content[di] = 3
		}
		return int64(s.failAfter), errVerifBody
	}
	vrt.Unsupported("io.Copy from an unexpected reader")
	return 0, nil
}

// verifOverwrite: the content of a file after writing the bytes of content
// neu from offset 0 through handle f: without truncation at open a longer
// old content keeps its tail (some other content), as on a real file system.
func verifOverwrite(f *os.File, old, neu int) int {
	if verifHandleKeeps != nil && verifHandleKeeps[f] && verifSize(old) > verifSize(neu) {
		return 3
	}
	return neu
}

func verifStubServeContent(w http.ResponseWriter, req *http.Request, name string, modtime time.Time, content io.ReadSeeker) {
	f, ok := content.(*os.File)
	if !ok {
		vrt.Unsupported("ServeContent of something that is not a model file")
		return
	}
	i := verifHandles[f]
	w.WriteHeader(http.StatusOK)
	if req.Method != http.MethodHead {
		io.WriteString(w, verifContentBytes(verifFS.content[i]))
	}
}

// ---------------------------------------------------------------------------
// materialise / read back (both modes)

var verifNativeRoot string

// verifMaterialise installs the tree: the model state symbolically, a real
// temporary directory natively. It returns the served root.
func verifMaterialise(t *verifTree) string {
	if vrt.Symbolic() {
		verifFS = t.copy()
		verifHandles = map[*os.File]int{}
		verifHandleKeeps = nil
		verifScratch = nil
		verifOSCalls = nil
		verifOpenFault = false
		verifCopyReadFault = false
		return verifModelRoot
	}
	dir, err := ioutil.TempDir("", "verif-dav-")
	if err != nil {
		panic(err)
	}
	verifNativeRoot = dir
	for i, p := range t.paths {
		if i == 0 {
			continue
		}
		switch t.kind[i] {
		case kDir:
			if err := os.MkdirAll(filepath.Join(dir, p), 0755); err != nil {
				panic(err)
			}
		case kFile:
			if err := ioutil.WriteFile(filepath.Join(dir, p), []byte(verifContentBytes(t.content[i])), 0644); err != nil {
				panic(err)
			}
		}
	}
	return dir
}

func verifCleanup() {
	for _, l := range verifListeners {
		l.Close()
	}
	verifListeners = nil
	for _, d := range verifExtraDirs {
		os.RemoveAll(d)
	}
	verifExtraDirs = nil
	if verifNativeRoot != "" {
		os.RemoveAll(verifNativeRoot)
		verifNativeRoot = ""
	}
}

// verifReadTree returns the tree after the request; extra reports entries
// that exist outside the universe (native run).
func verifReadTree(paths []string, root string) (*verifTree, []string) {
	if vrt.Symbolic() {
		var extra []string
		for _, sc := range verifScratch {
			extra = append(extra, strings.TrimPrefix(sc, verifModelRoot))
		}
		return verifFS.copy(), extra
	}
	t := &verifTree{paths: paths, kind: make([]int, len(paths)), content: make([]int, len(paths))}
	var extra []string
	filepath.Walk(root, func(p string, fi os.FileInfo, err error) error {
		if err != nil {
			return nil
		}
		rel := "/" + filepath.ToSlash(strings.TrimPrefix(strings.TrimPrefix(p, root), "/"))
		i := t.index(rel)
		if i < 0 {
			extra = append(extra, rel)
			return nil
		}
		if fi.IsDir() {
			t.kind[i] = kDir
		} else {
			t.kind[i] = kFile
			b, _ := ioutil.ReadFile(p)
			t.content[i] = verifContentID(string(b))
		}
		return nil
	})
	return t, extra
}

// verifMakeUnopenable (native run): replaces the file by a unix socket,
// which can be stat'ed but fails to open with ENXIO.
func verifMakeUnopenable(path string) bool {
	os.Remove(path)
	l, err := net.Listen("unix", path)
	if err != nil {
		return false
	}
	verifListeners = append(verifListeners, l)
	return true
}

var verifListeners []net.Listener

// verifMakeUnreadable (native run): replaces the file by a symbolic link
// to a directory outside the served root: it opens but cannot be read.
func verifMakeUnreadable(path string) bool {
	dir, err := ioutil.TempDir("", "verif-unreadable-")
	if err != nil {
		return false
	}
	verifExtraDirs = append(verifExtraDirs, dir)
	os.Remove(path)
	return os.Symlink(dir, path) == nil
}

var verifExtraDirs []string
