//go:build verif

package webdav

import (
	"context"
	"io"
	"io/ioutil"
	"strconv"
	"strings"

	"github.com/emersion/go-webdav/internal"
	vrt "github.com/emersion/go-webdav/internal/zz_verifrt"
)

// verifMemFS: a synthetic FileSystem that can hold arbitrary metadata and
// records what reaches it.
type verifMemFS struct {
	infos     []FileInfo
	content   map[string]string
	calls     []string
	names     []string
	dests     []string
	recursive []bool
	copyOpts  []CopyOptions
	moveOpts  []MoveOptions
}

func (m *verifMemFS) note(call, name, dest string) {
	m.calls = append(m.calls, call)
	m.names = append(m.names, name)
	m.dests = append(m.dests, dest)
}

func (m *verifMemFS) find(name string) *FileInfo {
	for i := range m.infos {
		if m.infos[i].Path == name || m.infos[i].Path == strings.TrimSuffix(name, "/") {
			return &m.infos[i]
		}
	}
	return nil
}

type verifStringReader struct {
	s   string
	pos int
}

func (r *verifStringReader) Read(p []byte) (int, error) {
	if r.pos >= len(r.s) {
		return 0, io.EOF
	}
	n := copy(p, r.s[r.pos:])
	r.pos += n
	return n, nil
}
func (r *verifStringReader) Close() error { return nil }

func (m *verifMemFS) Open(ctx context.Context, name string) (io.ReadCloser, error) {
	m.note("Open", name, "")
	if c, ok := m.content[name]; ok {
		return &verifStringReader{s: c}, nil
	}
	return nil, NewHTTPError(404, nil)
}
func (m *verifMemFS) Stat(ctx context.Context, name string) (*FileInfo, error) {
	m.note("Stat", name, "")
	if fi := m.find(name); fi != nil {
		c := *fi
		return &c, nil
	}
	return nil, NewHTTPError(404, nil)
}
func (m *verifMemFS) ReadDir(ctx context.Context, name string, recursive bool) ([]FileInfo, error) {
	m.note("ReadDir", name, "")
	m.recursive = append(m.recursive, recursive)
	var out []FileInfo
	base := strings.TrimSuffix(name, "/")
	for _, fi := range m.infos {
		switch {
		case fi.Path == base || fi.Path == name:
			out = append(out, fi)
		case strings.HasPrefix(fi.Path, base+"/"):
			rest := fi.Path[len(base)+1:]
			if recursive || !strings.Contains(rest, "/") {
				out = append(out, fi)
			}
		}
	}
	return out, nil
}
func (m *verifMemFS) Create(ctx context.Context, name string, body io.ReadCloser, opts *CreateOptions) (*FileInfo, bool, error) {
	m.note("Create", name, "")
	b, err := ioutil.ReadAll(body)
	if err != nil {
		return nil, false, err
	}
	m.content[name] = string(b)
	return &FileInfo{Path: name, Size: int64(len(b))}, true, nil
}
func (m *verifMemFS) RemoveAll(ctx context.Context, name string, opts *RemoveAllOptions) error {
	m.note("RemoveAll", name, "")
	return nil
}
func (m *verifMemFS) Mkdir(ctx context.Context, name string) error {
	m.note("Mkdir", name, "")
	return nil
}
func (m *verifMemFS) Copy(ctx context.Context, name, dest string, options *CopyOptions) (bool, error) {
	m.note("Copy", name, dest)
	m.copyOpts = append(m.copyOpts, *options)
	return true, nil
}
func (m *verifMemFS) Move(ctx context.Context, name, dest string, options *MoveOptions) (bool, error) {
	m.note("Move", name, dest)
	m.moveOpts = append(m.moveOpts, *options)
	return true, nil
}

func newLoopClientC05(fs FileSystem, endpointPath string) (*Client, *internal.VerifLoopback) {
	lb := &internal.VerifLoopback{Handler: &Handler{FileSystem: fs}}
	if vrt.Symbolic() {
		return &Client{ic: internal.VerifNewClient(lb, endpointPath)}, lb
	}
	c, err := NewClient(lb, "http://dav.example"+endpointPath)
	if err != nil {
		panic(err)
	}
	return c, lb
}

func symFileInfo(path string, i int, dir bool) FileInfo {
	tag := "fi" + strconv.Itoa(i)
	fi := FileInfo{Path: path, IsDir: dir}
	if !dir {
		fi.Size = vrt.Int64(tag + "-size")
		fi.MIMEType = vrt.Text(tag + "-mime")
		fi.ETag = vrt.Text(tag + "-etag")
	}
	if vrt.Choose(tag+"-hasmodtime", 2) == 1 {
		// the backend may hold its times in any zone
		fi.ModTime = vrt.TimeIn(tag+"-modtime", vrt.Choose(tag+"-zone", 3))
	}
	return fi
}

func fileInfoEq(got *FileInfo, want *FileInfo, where string) {
	vrt.Assert(got.Path == want.Path, where+": path")
	vrt.Assert(got.IsDir == want.IsDir, where+": kind")
	if !want.IsDir {
		vrt.Assert(got.Size == want.Size, where+": size")
		vrt.Assert(got.MIMEType == want.MIMEType, where+": content type")
		vrt.Assert(got.ETag == want.ETag, where+": entity tag")
	}
	if want.ModTime.IsZero() {
		vrt.Assert(got.ModTime.IsZero(), where+": no modification time invented")
	} else {
		vrt.AssertKnown(got.ModTime.Equal(want.ModTime), where+": modification time (to the second)", "C05-collection-modtime-not-sent", want.IsDir)
	}
}

// VerifH_C05_Metadata: Stat and ReadDir over the loopback report exactly the
// backend's path, kind, size, modification time, content type and tag; ReadDir
// asks for the right depth and returns each member exactly once, in order.
func VerifH_C05_Metadata() {
	internal.VerifResetWire()
	fs := &verifMemFS{content: map[string]string{}}
	// /d (collection), /d/<x> (file), /d/s (collection), /d/s/<y> (file)
	x := vrt.StrNIn("name-x", 1, 'a', 'r')
	y := vrt.StrNIn("name-y", 1, 'a', 'z')
	fs.infos = []FileInfo{
		symFileInfo("/d", 0, true),
		symFileInfo("/d/"+x, 1, false),
		symFileInfo("/d/s", 2, true),
		symFileInfo("/d/s/"+y, 3, false),
	}
	c, _ := newLoopClientC05(fs, "/")
	which := vrt.Choose("stat-target", len(fs.infos))
	got, err := c.Stat(context.Background(), fs.infos[which].Path)
	vrt.Assert(err == nil && got != nil, "Stat succeeds for an existing resource")
	if err == nil && got != nil {
		fileInfoEq(got, &fs.infos[which], "Stat")
	}
	recursive := vrt.Bool("recursive")
	fs.recursive = nil
	list, err := c.ReadDir(context.Background(), "/d", recursive)
	vrt.Assert(err == nil, "ReadDir succeeds")
	if err != nil {
		return
	}
	vrt.Assert(len(fs.recursive) == 1 && fs.recursive[0] == recursive, "ReadDir asks the backend for direct members or all descendants as requested")
	want := 3
	if recursive {
		want = 4
	}
	vrt.Assert(len(list) == want, "ReadDir: the collection itself and its members, each exactly once")
	if len(list) == want {
		for i := 0; i < want; i++ {
			fileInfoEq(&list[i], &fs.infos[i], "ReadDir")
		}
	}
	vrt.Reach("metadata")
}

// VerifH_C05_Operations: Mkdir, RemoveAll, Copy, Move reach the backend
// addressed to exactly the named resources (relative names resolved against
// the endpoint path) with exactly the requested options; Open returns the
// backend's bytes.
func VerifH_C05_Operations() {
	internal.VerifResetWire()
	fs := &verifMemFS{content: map[string]string{}}
	endpoints := []string{"/", "/dav/", "/dav"}
	ep := endpoints[vrt.Choose("endpoint", len(endpoints))]
	prefix := strings.TrimSuffix(ep, "/")
	c, _ := newLoopClientC05(fs, ep)
	// a name with one or two arbitrary bytes (every byte value that a path
	// segment can hold: no '/', and not a dot segment)
	seg := vrt.StrN("segment", 1+vrt.Choose("segment-len", vrt.Param("seglen", 1)))
	for i := 0; i < len(seg); i++ {
		vrt.Assume(seg[i] != '/' && seg[i] != 0)
	}
	vrt.Assume(seg != "." && seg != "..")
	relative := vrt.Bool("relative-name")
	name := prefix + "/x" + seg
	given := name
	if relative {
		given = "x" + seg
	}
	dest := prefix + "/y" + seg
	ctx := context.Background()
	switch vrt.Choose("operation", 5) {
	case 0:
		err := c.Mkdir(ctx, given)
		vrt.Assert(err == nil, "Mkdir succeeds")
		vrt.Assert(len(fs.calls) == 1 && fs.calls[0] == "Mkdir" && fs.names[0] == name, "Mkdir reaches the backend addressed to the named resource")
	case 1:
		err := c.RemoveAll(ctx, given)
		vrt.Assert(err == nil, "RemoveAll succeeds")
		vrt.Assert(len(fs.calls) >= 1 && fs.calls[len(fs.calls)-1] == "RemoveAll" && fs.names[len(fs.names)-1] == name, "RemoveAll reaches the backend addressed to the named resource")
	case 2:
		opts := &CopyOptions{NoRecursive: vrt.Bool("no-recursive"), NoOverwrite: vrt.Bool("no-overwrite")}
		err := c.Copy(ctx, given, dest, opts)
		vrt.Assert(err == nil, "Copy succeeds")
		ok := len(fs.calls) == 1 && fs.calls[0] == "Copy"
		vrt.Assert(ok, "Copy reaches the backend once")
		if ok {
			vrt.Assert(fs.names[0] == name && fs.dests[0] == dest, "Copy is addressed to exactly the named source and destination")
			vrt.Assert(fs.copyOpts[0].NoRecursive == opts.NoRecursive && fs.copyOpts[0].NoOverwrite == opts.NoOverwrite, "Copy carries exactly the requested options")
		}
	case 3:
		opts := &MoveOptions{NoOverwrite: vrt.Bool("no-overwrite")}
		err := c.Move(ctx, given, dest, opts)
		vrt.Assert(err == nil, "Move succeeds")
		ok := len(fs.calls) == 1 && fs.calls[0] == "Move"
		vrt.Assert(ok, "Move reaches the backend once")
		if ok {
			vrt.Assert(fs.names[0] == name && fs.dests[0] == dest, "Move is addressed to exactly the named source and destination")
			vrt.Assert(fs.moveOpts[0].NoOverwrite == opts.NoOverwrite, "Move carries exactly the requested option")
		}
	case 4:
		content := vrt.StrN("content", vrt.Choose("content-len", 3))
		fs.infos = []FileInfo{{Path: name, Size: int64(len(content)), ETag: "e"}}
		fs.content[name] = content
		rc, err := c.Open(ctx, given)
		vrt.Assert(err == nil && rc != nil, "Open succeeds")
		if err == nil && rc != nil {
			b, rerr := ioutil.ReadAll(rc)
			vrt.Assert(rerr == nil && string(b) == content, "Open returns the backend's bytes")
		}
	}
	vrt.Reach("operations")
}
