//go:build verif

package webdav

import (
	"bytes"
	"context"
	"encoding/xml"
	"fmt"
	"io"
	"io/ioutil"
	"net/http"
	"net/url"

	"github.com/emersion/go-webdav/internal"
	vrt "github.com/emersion/go-webdav/internal/zz_verifrt"
)

// verifChaosFS: a FileSystem whose every method answers arbitrarily:
// success, an HTTP error with an arbitrary 4xx/5xx code, or a plain error.
type verifChaosFS struct {
	mutations int
	calls     []string
}

func (c *verifChaosFS) outcome(tag string) error {
	switch vrt.Choose(tag+"-outcome", 3) {
	case 1:
		return NewHTTPError([]int{403, 404, 409, 412, 423, 507}[vrt.Choose(tag+"-code", 6)], fmt.Errorf("refused"))
	case 2:
		return fmt.Errorf("backend failure")
	}
	return nil
}

func (c *verifChaosFS) info(name string) *FileInfo {
	fi := &FileInfo{Path: name, IsDir: vrt.Bool("is-dir")}
	if !fi.IsDir {
		fi.Size = 3
		fi.ETag = "e"
		fi.MIMEType = "text/plain"
	}
	return fi
}

type verifEmptyReader struct{}

func (verifEmptyReader) Read(p []byte) (int, error) { return 0, io.EOF }
func (verifEmptyReader) Close() error               { return nil }

func (c *verifChaosFS) Open(ctx context.Context, name string) (io.ReadCloser, error) {
	c.calls = append(c.calls, "Open")
	if err := c.outcome("open"); err != nil {
		return nil, err
	}
	return verifEmptyReader{}, nil
}
func (c *verifChaosFS) Stat(ctx context.Context, name string) (*FileInfo, error) {
	c.calls = append(c.calls, "Stat")
	if err := c.outcome("stat"); err != nil {
		return nil, err
	}
	return c.info(name), nil
}
func (c *verifChaosFS) ReadDir(ctx context.Context, name string, recursive bool) ([]FileInfo, error) {
	c.calls = append(c.calls, "ReadDir")
	if err := c.outcome("readdir"); err != nil {
		return nil, err
	}
	n := vrt.Choose("readdir-entries", 3)
	var out []FileInfo
	for i := 0; i < n; i++ {
		out = append(out, FileInfo{Path: name + "/m" + string(rune('0'+i)), Size: 1, ETag: "t"})
	}
	return out, nil
}
func (c *verifChaosFS) Create(ctx context.Context, name string, body io.ReadCloser, opts *CreateOptions) (*FileInfo, bool, error) {
	c.calls = append(c.calls, "Create")
	c.mutations++
	if err := c.outcome("create"); err != nil {
		return nil, false, err
	}
	return &FileInfo{Path: name, ETag: "n"}, vrt.Bool("created"), nil
}
func (c *verifChaosFS) RemoveAll(ctx context.Context, name string, opts *RemoveAllOptions) error {
	c.calls = append(c.calls, "RemoveAll")
	c.mutations++
	return c.outcome("removeall")
}
func (c *verifChaosFS) Mkdir(ctx context.Context, name string) error {
	c.calls = append(c.calls, "Mkdir")
	c.mutations++
	return c.outcome("mkdir")
}
func (c *verifChaosFS) Copy(ctx context.Context, name, dest string, options *CopyOptions) (bool, error) {
	c.calls = append(c.calls, "Copy")
	c.mutations++
	if err := c.outcome("copy"); err != nil {
		return false, err
	}
	return vrt.Bool("copy-created"), nil
}
func (c *verifChaosFS) Move(ctx context.Context, name, dest string, options *MoveOptions) (bool, error) {
	c.calls = append(c.calls, "Move")
	c.mutations++
	if err := c.outcome("move"); err != nil {
		return false, err
	}
	return vrt.Bool("move-created"), nil
}

type verifXMLBody struct {
	empty bool
}

func (b *verifXMLBody) Read(p []byte) (int, error) {
	if b.empty {
		return 0, io.EOF
	}
	if len(p) == 0 {
		return 0, nil
	}
	p[0] = '<'
	b.empty = true
	return 1, nil
}
func (b *verifXMLBody) Close() error { return nil }

func verifXMLRequest(method, path string, hdr http.Header, xmlBody interface{}, xmlBroken bool, rawBody string, emptyBody bool) *http.Request {
	r := &http.Request{Method: method, URL: &url.URL{Path: path}, Header: hdr}
	internal.VerifRequestBody, internal.VerifRequestBodyErr = xmlBody, xmlBroken
	if vrt.Symbolic() {
		r.Body = &verifXMLBody{empty: emptyBody}
		return r
	}
	switch {
	case emptyBody:
		r.Body = ioutil.NopCloser(bytes.NewReader(nil))
	case rawBody != "":
		r.Body = ioutil.NopCloser(bytes.NewReader([]byte(rawBody)))
	case xmlBroken || xmlBody == nil:
		r.Body = ioutil.NopCloser(bytes.NewReader([]byte("<broken")))
	default:
		b, err := xml.Marshal(xmlBody)
		if err != nil {
			b = []byte("<marshal-error")
		}
		r.Body = ioutil.NopCloser(bytes.NewReader(b))
	}
	return r
}

// symPropfindBody: the PROPFIND body interpretations; returns malformed.
func symPropfindBody(hdr http.Header) (xmlBody interface{}, xmlBroken bool, rawBody string, emptyBody bool, malformed bool) {
	switch vrt.Choose("propfind-body", 4) {
	case 0:
		emptyBody = true
	case 1:
		hdr.Set("Content-Type", "text/xml")
		xmlBroken = true
		malformed = true
	case 2:
		switch vrt.Choose("propfind-content-type", 3) {
		case 0:
			hdr.Set("Content-Type", "application/xml; charset=utf-8")
		case 1:
			hdr.Set("Content-Type", "text/xml")
		case 2:
			// a media type parameter without a value: not a valid Content-Type
			hdr.Set("Content-Type", "text/xml;charset")
			malformed = true
		}
		pf := &internal.PropFind{}
		switch vrt.Choose("propfind-form", 6) {
		case 0:
			pf.AllProp = &struct{}{}
		case 1:
			pf.PropName = &struct{}{}
		case 2:
			pf.Prop = &internal.Prop{Raw: []internal.RawXMLValue{*internal.NewRawXMLElement(internal.GetETagName, nil, nil), *internal.NewRawXMLElement(xml.Name{Space: "urn:x", Local: "unknown"}, nil, nil)}}
		case 3:
			malformed = true
		case 4:
			// propname, allprop and prop are mutually exclusive (RFC 4918 14.20)
			pf.AllProp = &struct{}{}
			pf.PropName = &struct{}{}
			malformed = true
		case 5:
			pf.AllProp = &struct{}{}
			pf.Prop = &internal.Prop{Raw: []internal.RawXMLValue{*internal.NewRawXMLElement(internal.GetETagName, nil, nil)}}
			malformed = true
		}
		xmlBody = pf
	case 3:
		hdr.Set("Content-Type", "text/plain")
		rawBody = "x"
		malformed = true
	}
	return
}

// VerifH_C13_FileServer: webdav.Handler over a FileSystem that answers
// arbitrarily: no panic; malformed requests get 4xx and reach no
// Create/RemoveAll/Mkdir/Copy/Move; backend HTTP errors keep their code.
func VerifH_C13_FileServer() {
	internal.VerifResetWire()
	fs := &verifChaosFS{}
	h := &Handler{FileSystem: fs}
	methods := []string{"OPTIONS", "GET", "HEAD", "PUT", "DELETE", "PROPFIND", "PROPPATCH", "MKCOL", "COPY", "MOVE"}
	mi := vrt.Choose("method", len(methods)+1)
	method := ""
	if mi < len(methods) {
		method = methods[mi]
	} else {
		method = vrt.Str("unknown-method")
		for _, m := range methods {
			vrt.Assume(method != m)
		}
	}
	hdr := http.Header{}
	malformed := false
	var xmlBody interface{}
	xmlBroken, emptyBody := false, true
	rawBody := ""
	switch method {
	case "PROPFIND":
		if d, ok := symHeader("Depth", []string{"0", "1", "infinity"}); ok {
			hdr["Depth"] = []string{d}
			if d != "0" && d != "1" && d != "infinity" {
				malformed = true
			}
		}
		var bad bool
		xmlBody, xmlBroken, rawBody, emptyBody, bad = symPropfindBody(hdr)
		if bad {
			malformed = true
		}
	case "PROPPATCH":
		hdr.Set("Content-Type", "text/xml")
		if vrt.Choose("proppatch-broken", 2) == 1 {
			xmlBroken = true
			malformed = true
		} else {
			xmlBody = &internal.PropertyUpdate{}
		}
		emptyBody = false
	case "MKCOL":
		if vrt.Choose("mkcol-content-type", 2) == 1 {
			hdr.Set("Content-Type", "text/xml")
			malformed = true
		}
	case "COPY", "MOVE":
		switch vrt.Choose("destination", 3) {
		case 0:
			malformed = true
		case 1:
			hdr.Set("Destination", "http://dav.example/other")
		case 2:
			hdr.Set("Destination", "http://dav.example/%zz")
			malformed = true
		}
		if o, ok := symHeader("Overwrite", []string{"T", "F"}); ok {
			hdr["Overwrite"] = []string{o}
			if o != "T" && o != "F" {
				malformed = true
			}
		}
		if d, ok := symHeader("Depth", []string{"0", "1", "infinity"}); ok {
			hdr["Depth"] = []string{d}
			if d != "0" && d != "1" && d != "infinity" {
				malformed = true
			}
			if method == "COPY" && d == "1" {
				malformed = true
			}
			if method == "MOVE" && (d == "0" || d == "1") {
				malformed = true
			}
		}
	case "PUT", "DELETE":
		if v, ok := symHeader("If-Match", []string{"*", "\"e\""}); ok {
			hdr["If-Match"] = []string{v}
		}
		if method == "DELETE" {
			// RFC 4918 9.6.1: any Depth but infinity is invalid for DELETE
			if d, ok := symHeader("Depth", []string{"0", "1", "infinity"}); ok {
				hdr["Depth"] = []string{d}
				if d != "infinity" {
					malformed = true
				}
			}
		}
	}
	r := verifXMLRequest(method, "/x/"+vrt.Str("name"), hdr, xmlBody, xmlBroken, rawBody, emptyBody)
	rec := newVerifRecorder()
	panicked := interface{}(nil)
	func() {
		defer func() { panicked = recover() }()
		h.ServeHTTP(rec, r)
	}()
	vrt.Assert(panicked == nil, "file server must not panic")
	if panicked != nil {
		return
	}
	if rec.code == 0 {
		rec.code = 200
	}
	mname := method
	if mi >= len(methods) {
		mname = "unknown-method"
	}
	vrt.Assert(rec.code >= 200 && rec.code <= 599, mname+": a complete response with a valid status")
	if malformed {
		vrt.Assert(rec.code >= 400 && rec.code < 500, "malformed "+mname+" request must be answered 4xx")
		vrt.Assert(fs.mutations == 0, "malformed "+mname+" request must not reach Create/RemoveAll/Mkdir/Copy/Move")
		vrt.Reach("fileserver/malformed")
	} else {
		vrt.Reach("fileserver/wellformed")
	}
}

type verifHomeSet struct {
	XMLName xml.Name
	Href    internal.Href `xml:"DAV: href"`
}

func (h *verifHomeSet) GetXMLName() xml.Name { return h.XMLName }

// VerifH_C11_Principal: the PROPFIND answer of ServePrincipal with two home
// sets accounts for every property exactly once: each home set under its own
// name with its own value, current-user-principal, resourcetype; a property
// the principal does not have under 404; propname lists all names.
func VerifH_C11_Principal() {
	internal.VerifResetWire()
	hsA := &verifHomeSet{XMLName: xml.Name{Space: "urn:x", Local: "home-set-a"}, Href: internal.Href{Path: "/u/a/"}}
	hsB := &verifHomeSet{XMLName: xml.Name{Space: "urn:y", Local: "home-set-b"}, Href: internal.Href{Path: "/u/b/"}}
	opts := &ServePrincipalOptions{CurrentUserPrincipalPath: "/u/", HomeSets: []BackendSuppliedHomeSet{hsA, hsB}}
	unknown := xml.Name{Space: "urn:x", Local: "unknown"}
	candidates := []xml.Name{hsA.XMLName, hsB.XMLName, internal.CurrentUserPrincipalName, internal.ResourceTypeName, unknown}
	pf := &internal.PropFind{}
	var requested []xml.Name
	form := vrt.Choose("form", 3)
	switch form {
	case 0:
		pf.AllProp = &struct{}{}
	case 1:
		pf.PropName = &struct{}{}
	case 2:
		var raws []internal.RawXMLValue
		for i, n := range candidates {
			if vrt.Bool("request-" + string(rune('0'+i))) {
				requested = append(requested, n)
				raws = append(raws, *internal.NewRawXMLElement(n, nil, nil))
			}
		}
		pf.Prop = &internal.Prop{Raw: raws}
	}
	hdr := http.Header{}
	hdr.Set("Content-Type", "text/xml")
	r := verifXMLRequest("PROPFIND", "/u/", hdr, pf, false, "", false)
	rec := newVerifRecorder()
	ServePrincipal(rec, r, opts)
	vrt.Assert(rec.code == 207, "PROPFIND on the principal is answered 207")
	var ms *internal.MultiStatus
	if vrt.Symbolic() {
		ms = internal.VerifServed
	} else if rec.code == 207 {
		ms = &internal.MultiStatus{}
		if err := xml.Unmarshal([]byte(rec.body()), ms); err != nil {
			vrt.Fail("207 body is not a readable multi-status: " + err.Error())
		}
	}
	if ms == nil || len(ms.Responses) != 1 {
		vrt.Fail("principal: exactly one response")
		return
	}
	entries := internal.VerifEntriesOf(&ms.Responses[0])
	available := candidates[:4]
	count := func(n xml.Name, code int) int {
		k := 0
		for _, e := range entries {
			if e.Name == n && e.Code == code {
				k++
			}
		}
		return k
	}
	total := func(n xml.Name) int {
		k := 0
		for _, e := range entries {
			if e.Name == n {
				k++
			}
		}
		return k
	}
	switch form {
	case 0, 1:
		for _, n := range available {
			vrt.Assert(count(n, 200) == 1 && total(n) == 1, "principal: every available property is listed exactly once under 200")
		}
		// further properties may exist; none may be listed twice
		for i := range entries {
			for j := i + 1; j < len(entries); j++ {
				vrt.Assert(entries[i].Name != entries[j].Name, "principal: no property is listed twice")
			}
		}
	case 2:
		for _, n := range requested {
			want := 200
			if n == unknown {
				want = 404
			}
			vrt.Assert(count(n, want) == 1 && total(n) == 1, "principal: every requested property is accounted for exactly once, under 200 if available and 404 if not")
		}
		vrt.Assert(len(entries) == len(requested), "principal: nothing but the requested properties is reported")
	}
	if vrt.Symbolic() && form != 1 {
		// each home set is reported with its own value
		for _, e := range entries {
			if e.Name == hsA.XMLName && e.Code == 200 {
				vrt.Assert(e.Val == interface{}(hsA), "principal: home set reported with its own value")
			}
			if e.Name == hsB.XMLName && e.Code == 200 {
				vrt.Assert(e.Val == interface{}(hsB), "principal: home set reported with its own value")
			}
		}
	}
	vrt.Reach("principal-accounting")
}

// VerifH_C13_Principal: ServePrincipal for every method and PROPFIND body
// interpretation: no panic, malformed gets 400, the answer is one response
// for the request path accounting for every requested property.
func VerifH_C13_Principal() {
	internal.VerifResetWire()
	methods := []string{"OPTIONS", "PROPFIND", "GET", "REPORT"}
	mi := vrt.Choose("method", len(methods)+1)
	method := ""
	if mi < len(methods) {
		method = methods[mi]
	} else {
		method = vrt.Str("unknown-method")
		for _, m := range methods {
			vrt.Assume(method != m)
		}
	}
	opts := &ServePrincipalOptions{CurrentUserPrincipalPath: "/u/" + vrt.Str("user") + "/", Capabilities: []Capability{"calendar-access"}}
	nhs := vrt.Choose("home-sets", 3)
	for i := 0; i < nhs; i++ {
		opts.HomeSets = append(opts.HomeSets, &verifHomeSet{XMLName: xml.Name{Space: "urn:x", Local: "home-set-" + string(rune('a'+i))}})
	}
	hdr := http.Header{}
	var xmlBody interface{}
	xmlBroken, emptyBody := false, true
	rawBody := ""
	malformed := false
	if method == "PROPFIND" {
		xmlBody, xmlBroken, rawBody, emptyBody, malformed = symPropfindBody(hdr)
		if d, ok := symHeader("Depth", []string{"0", "1", "infinity"}); ok {
			hdr["Depth"] = []string{d}
			if d != "0" && d != "1" && d != "infinity" {
				malformed = true
			}
		}
		// an empty body means allprop, for the principal helper as well
	}
	path := opts.CurrentUserPrincipalPath
	r := verifXMLRequest(method, path, hdr, xmlBody, xmlBroken, rawBody, emptyBody)
	rec := newVerifRecorder()
	panicked := interface{}(nil)
	func() {
		defer func() { panicked = recover() }()
		ServePrincipal(rec, r, opts)
	}()
	vrt.Assert(panicked == nil, "ServePrincipal must not panic")
	if panicked != nil {
		return
	}
	if rec.code == 0 {
		rec.code = 200
	}
	switch {
	case method == "OPTIONS":
		vrt.Assert(rec.code >= 200 && rec.code < 300, "OPTIONS on the principal succeeds")
	case method == "PROPFIND" && malformed:
		vrt.Assert(rec.code >= 400 && rec.code < 500, "malformed PROPFIND on the principal is answered 4xx")
	case method == "PROPFIND":
		vrt.Assert(rec.code == 207, "PROPFIND on the principal is answered 207")
		if vrt.Symbolic() {
			ms := internal.VerifServed
			ok := ms != nil && len(ms.Responses) == 1 && len(ms.Responses[0].Hrefs) == 1
			vrt.Assert(ok, "principal: exactly one response with exactly one href")
			if ok {
				vrt.Assert(ms.Responses[0].Hrefs[0].Path == path, "principal: the response is addressed to the request path")
			}
		}
	default:
		vrt.Assert(rec.code == 405, "other methods on the principal are refused with 405")
	}
	vrt.Reach("principal/" + method)
}
