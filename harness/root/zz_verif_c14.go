//go:build verif

package webdav

import (
	"context"
	"errors"
	"net/http"
	"time"

	"github.com/emersion/go-webdav/internal"
	vrt "github.com/emersion/go-webdav/internal/zz_verifrt"
)

// symPropCode: the status under which a property is reported: 200, 404,
// 403, 500 or an arbitrary other code.
func symPropCode(tag string) int {
	switch vrt.Choose(tag+"-status", 5) {
	case 0:
		return 200
	case 1:
		return 404
	case 2:
		return 403
	case 3:
		return 500
	}
	c := vrt.Int(tag + "-code")
	vrt.Assume(c != 200)
	return c
}

// VerifH_C14_Stat: Client.Stat over a multi-status in which every property
// is reported under an arbitrary status: a property under a non-success
// status is surfaced as an error (404 on an optional property: as absent),
// never as valid data.
func VerifH_C14_Stat() {
	internal.VerifResetWire()
	isDir := vrt.Bool("is-collection")
	type propSpec struct {
		present bool
		code    int
		val     interface{}
	}
	var types []string
	_ = types
	rt := internal.NewResourceType()
	if isDir {
		rt = internal.NewResourceType(internal.CollectionName)
	}
	mod := time.Date(2021, 2, 3, 4, 5, 6, 0, time.UTC)
	// at most two properties are disturbed (absent, or reported under a
	// non-200 status); the others are present under 200
	d1 := vrt.Choose("disturbed-property", 6) // 5 = none
	d2 := vrt.Choose("second-disturbed-property", 6)
	mk := func(i int, tag string, val interface{}) propSpec {
		sp := propSpec{present: true, code: 200, val: val}
		if i == d1 || i == d2 {
			if i != 0 && vrt.Choose(tag+"-absent", 2) == 1 {
				sp.present = false
			} else {
				sp.code = symPropCode(tag)
			}
		}
		return sp
	}
	specs := []propSpec{
		mk(0, "resourcetype", rt),
		mk(1, "length", &internal.GetContentLength{Length: 42}),
		mk(2, "type", &internal.GetContentType{Type: "text/x"}),
		mk(3, "etag", &internal.GetETag{ETag: "tag"}),
		mk(4, "modified", &internal.GetLastModified{LastModified: internal.Time(mod)}),
	}
	resp := internal.Response{Hrefs: []internal.Href{{Path: "/dav/f"}}}
	for _, sp := range specs {
		if !sp.present {
			continue
		}
		if err := resp.EncodeProp(sp.code, sp.val); err != nil {
			vrt.Fail("cannot build response")
		}
	}
	ms := &internal.MultiStatus{Responses: []internal.Response{resp}}
	var c *Client
	if vrt.Symbolic() {
		sent := ms
		internal.VerifReplyMultiStatus = func(req *http.Request) (*internal.MultiStatus, error) { return sent, nil }
		c = &Client{ic: internal.VerifNewClient(&internal.VerifHTTPClient{}, "/dav/")}
	} else {
		b, err := internal.VerifMarshal(ms)
		if err != nil {
			vrt.Assume(false)
		}
		hc := &internal.VerifHTTPClient{Status: 207, Header: http.Header{"Content-Type": []string{"text/xml"}}, Body: b}
		var cerr error
		c, cerr = NewClient(hc, "http://dav.example/dav/")
		if cerr != nil {
			panic(cerr)
		}
	}
	fi, err := c.Stat(context.Background(), "/dav/f")

	ok200 := func(i int) bool { return specs[i].present && specs[i].code == 200 }
	absentOr404 := func(i int) bool { return !specs[i].present || specs[i].code == 404 }
	wantErr := !ok200(0)
	if !wantErr && !isDir {
		if !ok200(1) {
			wantErr = true
		}
		if !ok200(2) && !absentOr404(2) {
			wantErr = true
		}
		if !ok200(3) && !absentOr404(3) {
			wantErr = true
		}
	}
	if !wantErr && !ok200(4) && !absentOr404(4) {
		wantErr = true
	}
	vrt.Assert((err != nil) == wantErr, "Stat fails exactly when a needed property is reported with a non-success status")
	if err != nil {
		vrt.Assert(fi == nil, "no data together with an error")
		var he *internal.HTTPError
		vrt.Assert(errors.As(err, &he), "the error carries a status code")
		vrt.Reach("stat/error")
		return
	}
	vrt.Assert(fi != nil && fi.Path == "/dav/f" && fi.IsDir == isDir, "Stat: path and kind")
	if fi == nil {
		return
	}
	if !isDir {
		vrt.Assert(fi.Size == 42, "Stat: size")
		if ok200(2) {
			vrt.Assert(fi.MIMEType == "text/x", "Stat: content type")
		} else {
			vrt.Assert(fi.MIMEType == "", "a property reported with a non-success status never populates the result")
		}
		if ok200(3) {
			vrt.Assert(fi.ETag == "tag", "Stat: entity tag")
		} else {
			vrt.Assert(fi.ETag == "", "a property reported with a non-success status never populates the result")
		}
	}
	if ok200(4) {
		vrt.Assert(fi.ModTime.Equal(mod), "Stat: modification time")
	} else {
		vrt.Assert(fi.ModTime.IsZero(), "a property reported with a non-success status never populates the result")
	}
	vrt.Reach("stat/ok")
}
