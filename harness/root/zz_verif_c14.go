//go:build verif

package webdav

import (
	"context"
	"errors"
	"net/http"
	"time"

	"github.com/emersion/go-webdav/internal"
	vrt "github.com/emersion/go-webdav/internal/zz_verifrt"
)

// symPropCode: the status under which a property is reported: 200, 404,
// 403, 500 or an arbitrary other code.
func symPropCode(tag string) int {
	switch vrt.Choose(tag+"-status", 5) {
	case 0:
		return 200
	case 1:
		return 404
	case 2:
		return 403
	case 3:
		return 500
	}
	c := vrt.IntRange(tag+"-code", 100, 999)
	vrt.Assume(c != 200)
	return c
}

// VerifH_C14_Stat: Client.Stat over a multi-status in which every property
// is reported under an arbitrary status: a property under a non-success
// status is surfaced as an error (404 on an optional property: as absent),
// never as valid data.
func VerifH_C14_Stat() {
	internal.VerifResetWire()
	isDir := vrt.Bool("is-collection")
	type propSpec struct {
		present bool
		code    int
		val     interface{}
	}
	var types []string
	_ = types
	rt := internal.NewResourceType()
	if isDir {
		rt = internal.NewResourceType(internal.CollectionName)
	}
	mod := time.Date(2021, 2, 3, 4, 5, 6, 0, time.UTC)
	// at most two properties are disturbed (absent, or reported under a
	// non-200 status); the others are present under 200
	d1 := vrt.Choose("disturbed-property", 6) // 5 = none
	d2 := vrt.Choose("second-disturbed-property", 6)
	mk := func(i int, tag string, val interface{}) propSpec {
		sp := propSpec{present: true, code: 200, val: val}
		if i == d1 || i == d2 {
			if i != 0 && vrt.Choose(tag+"-absent", 2) == 1 {
				sp.present = false
			} else {
				sp.code = symPropCode(tag)
			}
		}
		return sp
	}
	specs := []propSpec{
		mk(0, "resourcetype", rt),
		mk(1, "length", &internal.GetContentLength{Length: 42}),
		mk(2, "type", &internal.GetContentType{Type: "text/x"}),
		mk(3, "etag", &internal.GetETag{ETag: "tag"}),
		mk(4, "modified", &internal.GetLastModified{LastModified: internal.Time(mod)}),
	}
	resp := internal.Response{Hrefs: []internal.Href{{Path: "/dav/f"}}}
	for _, sp := range specs {
		if !sp.present {
			continue
		}
		if err := resp.EncodeProp(sp.code, sp.val); err != nil {
			vrt.Fail("cannot build response")
		}
	}
	ms := &internal.MultiStatus{Responses: []internal.Response{resp}}
	var c *Client
	if vrt.Symbolic() {
		sent := ms
		internal.VerifReplyMultiStatus = func(req *http.Request) (*internal.MultiStatus, error) { return sent, nil }
		c = &Client{ic: internal.VerifNewClient(&internal.VerifHTTPClient{}, "/dav/")}
	} else {
		b, err := internal.VerifMarshal(ms)
		if err != nil {
			vrt.Assume(false)
		}
		hc := &internal.VerifHTTPClient{Status: 207, Header: http.Header{"Content-Type": []string{"text/xml"}}, Body: b}
		var cerr error
		c, cerr = NewClient(hc, "http://dav.example/dav/")
		if cerr != nil {
			panic(cerr)
		}
	}
	fi, err := c.Stat(context.Background(), "/dav/f")

	ok200 := func(i int) bool { return specs[i].present && specs[i].code == 200 }
	absentOr404 := func(i int) bool { return !specs[i].present || specs[i].code == 404 }
	wantErr := !ok200(0)
	if !wantErr && !isDir {
		if !ok200(1) {
			wantErr = true
		}
		if !ok200(2) && !absentOr404(2) {
			wantErr = true
		}
		if !ok200(3) && !absentOr404(3) {
			wantErr = true
		}
	}
	if !wantErr && !ok200(4) && !absentOr404(4) {
		wantErr = true
	}
	vrt.Assert((err != nil) == wantErr, "Stat fails exactly when a needed property is reported with a non-success status")
	if err != nil {
		vrt.Assert(fi == nil, "no data together with an error")
		var he *internal.HTTPError
		vrt.Assert(errors.As(err, &he), "the error carries a status code")
		vrt.Reach("stat/error")
		return
	}
	vrt.Assert(fi != nil && fi.Path == "/dav/f" && fi.IsDir == isDir, "Stat: path and kind")
	if fi == nil {
		return
	}
	if !isDir {
		vrt.Assert(fi.Size == 42, "Stat: size")
		if ok200(2) {
			vrt.Assert(fi.MIMEType == "text/x", "Stat: content type")
		} else {
			vrt.Assert(fi.MIMEType == "", "a property reported with a non-success status never populates the result")
		}
		if ok200(3) {
			vrt.Assert(fi.ETag == "tag", "Stat: entity tag")
		} else {
			vrt.Assert(fi.ETag == "", "a property reported with a non-success status never populates the result")
		}
	}
	if ok200(4) {
		vrt.Assert(fi.ModTime.Equal(mod), "Stat: modification time")
	} else {
		vrt.Assert(fi.ModTime.IsZero(), "a property reported with a non-success status never populates the result")
	}
	vrt.Reach("stat/ok")
}

// VerifH_C14_Mutations: RemoveAll, Copy, Move and Mkdir for every HTTP
// status (any 64-bit value) and, for 207, a multi-status that decodes or not
// and whose members report arbitrary statuses: no panic; error exactly when
// the status is not 2xx, or it is 207 and the body cannot be read or a member
// reports a non-success status (RFC 4918 9.6.1, 9.8.5, 9.9.4: 207 is how a
// partial failure is reported); the error carries the failing status code.
func VerifH_C14_Mutations() {
	internal.VerifResetWire()
	r := &internal.VerifResponder{Status: vrt.Int("status"), Header: http.Header{}}
	r.Header.Set("Content-Type", "text/xml")
	decodeFails := false
	memberFailed := false
	failCode := 0
	if r.Status == 207 {
		decodeFails = vrt.Choose("body-decodes", 2) == 0
		var ms *internal.MultiStatus
		if !decodeFails {
			ms = &internal.MultiStatus{}
			n := vrt.Choose("members", 3)
			for i := 0; i < n; i++ {
				code := vrt.IntRange("member-status", 100, 999)
				ms.Responses = append(ms.Responses, internal.Response{Hrefs: []internal.Href{{Path: "/dav/d/" + string(rune('a'+i))}}, Status: &internal.Status{Code: code}})
				if (code < 200 || code > 299) && !memberFailed {
					memberFailed = true
					failCode = code
				}
			}
		}
		internal.VerifPrepareBody(r, decodeFails, nil, ms)
	} else {
		internal.VerifPrepareBody(r, true, nil, nil)
	}
	var c *Client
	if vrt.Symbolic() {
		c = &Client{ic: internal.VerifNewClient(r, "/dav/")}
	} else {
		var cerr error
		c, cerr = NewClient(r, "http://dav.example/dav/")
		if cerr != nil {
			panic(cerr)
		}
	}
	ops := []string{"RemoveAll", "Copy", "Move", "Mkdir"}
	op := ops[vrt.Choose("operation", len(ops))]
	var err error
	panicked := interface{}(nil)
	func() {
		defer func() { panicked = recover() }()
		switch op {
		case "RemoveAll":
			err = c.RemoveAll(context.Background(), "/dav/d")
		case "Copy":
			err = c.Copy(context.Background(), "/dav/d", "/dav/e", nil)
		case "Move":
			err = c.Move(context.Background(), "/dav/d", "/dav/e", nil)
		case "Mkdir":
			err = c.Mkdir(context.Background(), "/dav/d")
		}
	}()
	vrt.Assert(panicked == nil, op+" must not panic")
	if panicked != nil {
		return
	}
	is2xx := r.Status >= 200 && r.Status <= 299
	wantErr := !is2xx
	if r.Status == 207 && op != "Mkdir" && (decodeFails || memberFailed) {
		wantErr = true
	}
	vrt.Assert((err != nil) == wantErr, op+" fails exactly when the status is not 2xx or a 207 reports a failed member")
	if err != nil {
		var he *internal.HTTPError
		if !is2xx {
			vrt.Assert(errors.As(err, &he) && he.Code == r.Status, "the error carries the HTTP status code")
		} else if memberFailed && !decodeFails {
			vrt.Assert(errors.As(err, &he) && he.Code == failCode, "the error carries the failed member's status code")
		}
	}
	vrt.Reach("mutations/" + op)
}
